/-
  C19 — pipeline and custom-module resolution order.

  Theorems about `PypyrModel/Resolve.lean` (a transliteration of `pypyr/loaders/file.py`,
  `pype.get_arguments`, `add_sys_path`): for EVERY file system (existence predicate), every name,
  every parent. Helper lemmas: `Props/Lemmas/C19_Find.lean`.
-/
import Props.Lemmas.C19_Find
import Props.Lemmas.C19_Session
import Props.Lemmas.C19_Chain

namespace Pypyr.C19
open Pypyr.Resolve

/-! example file system for the non-vacuity examples: cwd `/w`, built-ins `/b`;
    `x.yaml` exists in `/w/pipelines` and `/b`, `/p` is a directory, `/p/x.yaml` does not exist. -/
def exFs : Fs :=
  { cwd := ["w"], builtin := ["b"],
    isFile := fun p => p == ["w", "pipelines", "x.yaml"] || p == ["b", "x.yaml"] || p == ["p", "y.yaml"],
    dirExists := fun d => d == ["w"] || d == ["w", "pipelines"] || d == ["b"] || d == ["p"] }

/-- `resolve_first_existing` (spelled out): a relative name resolves to the first existing file
    among `parent/<name>.yaml` (only if a parent is given, exists and is not the cwd),
    `cwd/<name>.yaml`, `cwd/pipelines/<name>.yaml`, `{pypyr}/pipelines/<name>.yaml`; if none
    exists the result is the not-found error. For every existence predicate. -/
theorem resolve_first_existing (fs : Fs) (parts : List String) (parent : Option Path) :
    getPipelinePath fs (.rel parts) parent =
      match (candidates fs parent parts).find? fs.isFile with
      | some p => .ok p
      | none => .error (notFoundMsg ("/".intercalate (fileParts parts)) (searchDirs fs parent)) := by
  simp only [getPipelinePath, findPipeline_eq_find, candidates]
  cases List.find? fs.isFile (List.map (fun x => x ++ fileParts parts) (searchDirs fs parent)) <;> rfl

/-- the candidate list, written out -/
theorem candidates_spelled_out (fs : Fs) (parts : List String) (parent : Option Path) :
    candidates fs parent parts =
      (match parent with
       | some p => if fs.dirExists p = true ∧ p ≠ fs.cwd then [p ++ fileParts parts] else []
       | none => []) ++
      [fs.cwd ++ fileParts parts, fs.cwd ++ ["pipelines"] ++ fileParts parts,
       fs.builtin ++ fileParts parts] := by
  cases parent with
  | none => simp [candidates, searchDirs, cwdPipelines]
  | some p =>
    by_cases h1 : fs.dirExists p = true <;> by_cases h2 : p = fs.cwd <;>
      simp [candidates, searchDirs, cwdPipelines, h1, h2]

/-- `resolve_first_existing`, positional form: the result is a candidate that exists and every
    candidate before it does not. -/
theorem resolve_first_existing_pos (fs : Fs) (parts : List String) (parent : Option Path) (p : Path)
    (h : getPipelinePath fs (.rel parts) parent = .ok p) :
    fs.isFile p = true ∧ ∃ before after, candidates fs parent parts = before ++ p :: after ∧
      ∀ q ∈ before, fs.isFile q = false := by
  rw [resolve_first_existing] at h
  split at h
  · rename_i q hq
    cases h
    obtain ⟨hp, as, bs, heq, hb⟩ := List.find?_eq_some_iff_append.mp hq
    exact ⟨hp, as, bs, heq, fun q hq => by simpa using hb q hq⟩
  · cases h

/-- … and conversely: if any candidate exists, resolution succeeds. -/
theorem resolve_some_existing (fs : Fs) (parts : List String) (parent : Option Path) (q : Path)
    (hq : q ∈ candidates fs parent parts) (hf : fs.isFile q = true) :
    ∃ p, getPipelinePath fs (.rel parts) parent = .ok p := by
  rw [resolve_first_existing]
  cases hfind : (candidates fs parent parts).find? fs.isFile with
  | some p => exact ⟨p, rfl⟩
  | none => exact absurd hf (by simpa using List.find?_eq_none.mp hfind q hq)

example : getPipelinePath exFs (.rel ["x"]) (some ["p"]) = .ok ["w", "pipelines", "x.yaml"] ∧
    candidates exFs (some ["p"]) ["x"] =
      [["p", "x.yaml"], ["w", "x.yaml"], ["w", "pipelines", "x.yaml"], ["b", "x.yaml"]] := by
  constructor <;> rfl

/-- `resolve_absolute_only`: an absolute name is looked for at exactly that path — found iff it
    exists there; the parent, the cwd and every other file are irrelevant. -/
theorem resolve_absolute_only (fs : Fs) (parts : List String) (parent : Option Path) :
    getPipelinePath fs (.abs parts) parent =
      if fs.isFile (fileParts parts) = true then .ok (fileParts parts)
      else .error (pathStr (fileParts parts) ++ " does not exist.") := by
  simp [getPipelinePath]

theorem resolve_absolute_nowhere_else (fs fs' : Fs) (parts : List String) (parent parent' : Option Path)
    (h : fs.isFile (fileParts parts) = fs'.isFile (fileParts parts)) :
    getPipelinePath fs (.abs parts) parent = getPipelinePath fs' (.abs parts) parent' := by
  simp [getPipelinePath, h]

example : getPipelinePath exFs (.abs ["q", "x"]) (some ["p"]) = .error "/q/x.yaml does not exist." ∧
    getPipelinePath exFs (.abs ["p", "y"]) none = .ok ["p", "y.yaml"] := by
  constructor <;> rfl

/-- `not_found_lists_searched`: when no candidate exists the error text is the file name followed
    by the searched directories, one per line, in search order — and these are exactly the
    directories of the candidates. -/
theorem not_found_lists_searched (fs : Fs) (parts : List String) (parent : Option Path)
    (h : ∀ q ∈ candidates fs parent parts, fs.isFile q = false) :
    getPipelinePath fs (.rel parts) parent =
      .error ("/".intercalate (fileParts parts) ++ " not found in any of the following:\n" ++
              "\n".intercalate ((searchDirs fs parent).map pathStr)) ∧
    candidates fs parent parts = (searchDirs fs parent).map (· ++ fileParts parts) := by
  refine ⟨?_, rfl⟩
  rw [resolve_first_existing]
  have : (candidates fs parent parts).find? fs.isFile = none :=
    List.find?_eq_none.mpr (fun q hq => by simp [h q hq])
  rw [this]
  rfl

example : getPipelinePath exFs (.rel ["sub", "z"]) (some ["p"]) =
    .error "sub/z.yaml not found in any of the following:\n/p\n/w\n/w/pipelines\n/b" := by
  rfl

/-! ### what a pype child inherits -/

/-- `child_parent_default`, row 1: an explicit `parent` (even `None`) wins. -/
theorem child_parent_explicit (pype : PypeIn) (info : Info) (p : Option Path)
    (h : pype.parent = some p) : childParent pype info = p := by
  simp [childParent, h]

/-- rows 2/3: without an explicit `parent` the child gets the caller's parent iff
    resolveFromParent (default: the caller's `is_parent_cascading`) is truthy AND the child's loader
    equals the caller's loader; else no parent. -/
theorem child_parent_default (pype : PypeIn) (info : Info) (h : pype.parent = none) :
    childParent pype info =
      if ((match pype.resolveFromParent with | some v => v.truthy | none => info.isParentCascading) = true
          ∧ childLoader pype info = some info.loader)
      then info.parent else none := by
  simp only [childParent, h]
  by_cases h2 : childLoader pype info = some info.loader
  · cases pype.resolveFromParent with
    | none => cases info.isParentCascading <;> simp [h2]
    | some v => cases v.truthy <;> simp [h2]
  · cases pype.resolveFromParent with
    | none => cases info.isParentCascading <;> simp [h2]
    | some v => cases v.truthy <;> simp [h2]

/-- the loader a child uses when `pype.loader` is absent: the caller's, if that cascades. -/
theorem child_loader_default (pype : PypeIn) (info : Info) (h : pype.loader = none) :
    childLoader pype info = if info.isLoaderCascading then some info.loader else none := by
  simp [childLoader, h]

/-- `child_resolves_from_parent_first`: a pype child of a file-loaded pipeline, with no
    `loader`/`resolveFromParent`/`parent` keys, is looked for in the calling pipeline's directory
    first, then cwd, cwd/pipelines, built-ins. -/
theorem child_resolves_from_parent_first (fs : Fs) (callerPath : Path) (parts : List String)
    (pype : PypeIn) (h1 : pype.loader = none) (h2 : pype.resolveFromParent = none) (h3 : pype.parent = none) :
    childLoader pype (infoOf (.file callerPath)) = some fileLoader ∧
    childParent pype (infoOf (.file callerPath)) = some (dirOf callerPath) ∧
    getPipelinePath fs (.rel parts) (childParent pype (infoOf (.file callerPath))) =
      match (candidates fs (some (dirOf callerPath)) parts).find? fs.isFile with
      | some p => .ok p
      | none => .error (notFoundMsg ("/".intercalate (fileParts parts)) (searchDirs fs (some (dirOf callerPath)))) := by
  have hp : childParent pype (infoOf (.file callerPath)) = some (dirOf callerPath) := by
    simp [childParent, childLoader, infoOf, h1, h2, h3]
  refine ⟨by simp [childLoader, infoOf, h1], hp, ?_⟩
  rw [hp, resolve_first_existing]

/-- "unless told otherwise": with a falsy `resolveFromParent` (and no explicit parent) the child
    gets no parent and is looked for in cwd, cwd/pipelines, built-ins only. -/
theorem child_resolve_from_parent_off (fs : Fs) (info : Info) (parts : List String) (pype : PypeIn)
    (v : Val) (h2 : pype.resolveFromParent = some v) (hv : v.truthy = false) (h3 : pype.parent = none) :
    childParent pype info = none ∧
    candidates fs (childParent pype info) parts =
      [fs.cwd ++ fileParts parts, fs.cwd ++ ["pipelines"] ++ fileParts parts, fs.builtin ++ fileParts parts] := by
  have hp : childParent pype info = none := by simp [childParent, h2, hv, h3]
  exact ⟨hp, by rw [hp, candidates_spelled_out]; rfl⟩

/-- a child given another loader than its caller's gets no parent by default. -/
theorem child_other_loader_no_parent (pype : PypeIn) (info : Info) (l : Option String)
    (h1 : pype.loader = some l) (hl : l ≠ some info.loader) (h3 : pype.parent = none) :
    childParent pype info = none := by
  simp [childParent, childLoader, h1, h3, hl]

example : childParent { loader := none, resolveFromParent := none, parent := none }
      (infoOf (.file ["p", "y.yaml"])) = some ["p"] ∧
    childParent { loader := none, resolveFromParent := some (.bool false), parent := none }
      (infoOf (.file ["p", "y.yaml"])) = none ∧
    childParent { loader := some (some "other"), resolveFromParent := none, parent := none }
      (infoOf (.file ["p", "y.yaml"])) = none ∧
    childParent { loader := none, resolveFromParent := some (.bool false), parent := some (some ["q"]) }
      (infoOf (.file ["p", "y.yaml"])) = some ["q"] := by decide

/-! ### custom modules next to a loaded pipeline are importable -/

/-- `sys_path_has_pipeline_dir`: after `get_pipeline_definition` returned a pipeline file, that
    file's directory is on `sys.path` (whether it was parsed now or served from `file_cache`), and
    the invariant that makes this true is kept — so it holds after any sequence of loads. The
    invariant `Good` does not mention the file system: the file system may change in any way
    between loads (directories appearing after `add_sys_path` first saw them absent included —
    the rule repaired by /repo 0afb649: a directory absent at first sight is looked at again). -/
theorem sys_path_has_pipeline_dir (fs : Fs) (hfs : FsOk fs) (st : LoadState) (hg : Good st)
    (name : Name) (parent : Option Path) (p : Path)
    (h : (getPipelineDefinition fs st name parent).1 = .ok p) :
    dirOf p ∈ (getPipelineDefinition fs st name parent).2.sysPath ∧
    Good (getPipelineDefinition fs st name parent).2 := by
  unfold getPipelineDefinition at h ⊢
  cases hr : getPipelinePath fs name parent with
  | error e => simp [hr] at h
  | ok q =>
    simp only [hr] at h ⊢
    have hfile := getPipelinePath_isFile fs name parent q hr
    have hdir := hfs q hfile
    by_cases hc : q ∈ st.fileCache
    · simp only [hc, if_true] at h ⊢
      have e := Except.ok.inj h; subst e
      exact ⟨hg.cached q hc, hg⟩
    · simp only [hc, if_false] at h ⊢
      have e := Except.ok.inj h; subst e
      have hk : ∀ d ∈ ({ st with fileCache := q :: st.fileCache } : LoadState).known,
          d ∉ ({ st with fileCache := q :: st.fileCache } : LoadState).missing →
          d ∈ ({ st with fileCache := q :: st.fileCache } : LoadState).sysPath := hg.known
      refine ⟨addSysPath_mem fs _ _ hk hdir, ⟨?_, addSysPath_known fs _ _ hk⟩⟩
      intro x hx
      rw [addSysPath_fileCache] at hx
      rcases List.mem_cons.mp hx with e | hx
      · subst e; exact addSysPath_mem fs _ _ hk hdir
      · exact addSysPath_mono fs _ _ _ (hg.cached x hx)

/-- the empty start state satisfies the invariant -/
theorem good_init (sysPath : List Path) : Good { fileCache := [], sysPath := sysPath, known := [] } :=
  ⟨by simp, by simp⟩

example : (getPipelineDefinition exFs { fileCache := [], sysPath := [["site"]], known := [] }
    (.rel ["x"]) none).2.sysPath = [["site"], ["w", "pipelines"]] := by decide

/-! ### sequences of look-ups in one process: the warm cache never changes what a name resolves to -/

/-- `session_cold` — for EVERY sequence of look-ups (any names, any parents, any `Pipeline` objects,
    in any order), file-system changes, `clear_all()`s and `no_cache` toggles: a look-up made when
    every cache layer has been cleared since the file system last changed (or with caching off)
    resolves to exactly what the same look-up yields in a cold process — the first existing
    candidate in the documented order for ITS OWN (name, parent), or the not-found error. Earlier
    look-ups — for other names, from other parents, falling through to other places — cannot
    change it. -/
theorem session_cold (parse : String → Name) (ops : List SOp) :
    ∀ (fs : Fs) (nc dirty : Bool) (s : Sess), (dirty = false → SCoh parse fs s) →
    ∀ x ∈ runSess parse fs nc dirty s ops, x.2.1 = true → x.1 = x.2.2 := by
  induction ops with
  | nil => intro fs nc dirty s _ x hx; simp [runSess] at hx
  | cons op ops ih =>
    intro fs nc dirty s hc x hx hclean
    cases op with
    | req r =>
      simp only [runSess, List.mem_cons] at hx
      rcases hx with rfl | hx
      · simp only [Bool.or_eq_true, Bool.not_eq_true'] at hclean
        cases nc with
        | true => exact (request_noCache parse fs s r).1
        | false =>
          have hd : dirty = false := by simpa using hclean
          exact (request_cold parse fs false s r (hc hd)).1
      · refine ih fs nc dirty _ ?_ x hx hclean
        intro hd
        exact (request_cold parse fs nc s r (hc hd)).2
    | fs fs' =>
      simp only [runSess] at hx
      exact ih fs' nc true s (by simp) x hx hclean
    | clear =>
      simp only [runSess] at hx
      exact ih fs nc false _ (fun _ => scoh_clear parse fs s) x hx hclean
    | noCache b =>
      simp only [runSess] at hx
      exact ih fs b dirty s hc x hx hclean
    | pyDir d =>
      simp only [runSess] at hx
      exact ih fs nc dirty (s.pyDir fs d) (fun hd a b c h => hc hd a b c h) x hx hclean

/-- `warm_equals_cold` — in an unchanging file system EVERY look-up of EVERY sequence, from a
    cold start, resolves as in a cold process. -/
theorem warm_equals_cold (parse : String → Name) (fs : Fs) (sp : List Path) (ops : List SOp)
    (hno : ∀ fs', SOp.fs fs' ∉ ops) (nc : Bool) :
    ∀ x ∈ runSess parse fs nc false (Sess.init sp) ops, x.1 = x.2.2 := by
  have key : ∀ (ops : List SOp) (nc : Bool) (s : Sess), (∀ fs', SOp.fs fs' ∉ ops) → SCoh parse fs s →
      ∀ x ∈ runSess parse fs nc false s ops, x.1 = x.2.2 := by
    intro ops
    induction ops with
    | nil => intro nc s _ _ x hx; simp [runSess] at hx
    | cons op ops ih =>
      intro nc s hno hc x hx
      have hno' : ∀ fs', SOp.fs fs' ∉ ops := fun fs' h => hno fs' (List.mem_cons_of_mem _ h)
      cases op with
      | req r =>
        simp only [runSess, List.mem_cons] at hx
        rcases hx with rfl | hx
        · exact (request_cold parse fs nc s r hc).1
        · exact ih nc _ hno' (request_cold parse fs nc s r hc).2 x hx
      | fs fs' => exact absurd List.mem_cons_self (hno fs')
      | clear => simp only [runSess] at hx; exact ih nc _ hno' (scoh_clear parse fs s) x hx
      | noCache b => simp only [runSess] at hx; exact ih b s hno' hc x hx
      | pyDir d => simp only [runSess] at hx; exact ih nc (s.pyDir fs d) hno' (fun a b c h => hc a b c h) x hx
  exact key ops nc _ hno (scoh_init parse fs sp)

/-- `request_ignores_object` — which `Pipeline` object issues the look-up (and whatever it ran
    before, with whatever parent) plays no part in it. -/
theorem request_ignores_object (parse : String → Name) (fs : Fs) (nc : Bool) (s : Sess) (r : Req) (o : Nat) :
    request parse fs nc s { r with obj := o } = request parse fs nc s r := rfl

def exParse : String → Name
  | "x" => .rel ["x"]
  | "sub/c" => .rel ["sub", "c"]
  | "c" => .rel ["c"]
  | "/p/x" => .abs ["p", "x"]
  | _ => .rel ["none"]

/-- cwd `/w` holds `x.yaml`, `c.yaml` and `sub/c.yaml`; `/p` and `/p/sub` are empty directories -/
def exFs2 : Fs :=
  { cwd := ["w"], builtin := ["b"],
    isFile := fun p => p == ["w", "x.yaml"] || p == ["w", "c.yaml"] || p == ["w", "sub", "c.yaml"],
    dirExists := fun d => d == ["w"] || d == ["w", "sub"] || d == ["b"] || d == ["p"] || d == ["p", "sub"] }

/-- relative `x` from `/p` falls through to the cwd; afterwards the ABSOLUTE `/p/x` is still not
    found; `sub/c` from `/p` and `c` from `/p/sub` fall through to different cwd files. -/
example : (runSess exParse exFs2 false false (Sess.init [])
      [.req ⟨0, "x", some ["p"]⟩, .req ⟨1, "/p/x", some ["p"]⟩,
       .req ⟨2, "sub/c", some ["p"]⟩, .req ⟨3, "c", some ["p", "sub"]⟩, .req ⟨0, "x", none⟩]).map (·.1) =
    [.ok ["w", "x.yaml"], .error "/p/x.yaml does not exist.", .ok ["w", "sub", "c.yaml"], .ok ["w", "c.yaml"],
     .ok ["w", "x.yaml"]] := by
  rfl

/-- `joined_key_collides` — NOT pypyr: keyed on `os.path.join(str(parent), name)` (the first
    candidate only) these requests would share a cache entry although they resolve differently;
    the key `(str(parent), name)` of the model keeps them apart. -/
theorem joined_key_collides :
    joinedKey exParse ⟨0, "x", some ["p"]⟩ = joinedKey exParse ⟨1, "/p/x", none⟩ ∧
    getPipelinePath exFs2 (exParse "x") (some ["p"]) = .ok ["w", "x.yaml"] ∧
    getPipelinePath exFs2 (exParse "/p/x") none = .error "/p/x.yaml does not exist." ∧
    joinedKey exParse ⟨2, "sub/c", some ["p"]⟩ = joinedKey exParse ⟨3, "c", some ["p", "sub"]⟩ ∧
    getPipelinePath exFs2 (exParse "sub/c") (some ["p"]) = .ok ["w", "sub", "c.yaml"] ∧
    getPipelinePath exFs2 (exParse "c") (some ["p", "sub"]) = .ok ["w", "c.yaml"] := by
  refine ⟨rfl, rfl, rfl, rfl, rfl, rfl⟩

/-- `request_sys_path` — also when a pipeline is served from the warm cache its directory is on
    `sys.path`; the invariant (which does not mention the file system) survives the look-up. -/
theorem request_sys_path (parse : String → Name) (fs : Fs) (hfs : FsOk fs) (nc : Bool) (s : Sess) (r : Req)
    (hg : SGood s) :
    SGood (request parse fs nc s r).2 ∧
    ∀ p, (request parse fs nc s r).1 = .ok p → dirOf p ∈ (request parse fs nc s r).2.load.sysPath := by
  cases nc with
  | true =>
    unfold request
    simp only [if_true]
    cases hp : getPipelinePath fs (parse r.nameStr) r.parent with
    | error e => exact ⟨hg, fun p h => by cases h⟩
    | ok q =>
      simp only
      have hdir := hfs q (getPipelinePath_isFile fs _ _ q hp)
      refine ⟨⟨⟨?_, addSysPath_known fs _ _ hg.load.known⟩, ?_⟩, ?_⟩
      · intro x hx
        rw [addSysPath_fileCache] at hx
        exact addSysPath_mono fs _ _ _ (hg.load.cached x hx)
      · intro k p hm
        exact addSysPath_mono fs _ _ _ (hg.served k p hm)
      · intro p h
        cases h
        exact addSysPath_mem fs _ _ hg.load.known hdir
  | false =>
    unfold request
    simp only [Bool.false_eq_true, if_false]
    cases hl : s.lookup (r.parent, r.nameStr) with
    | some q =>
      simp only
      exact ⟨hg, fun p h => by cases h; exact hg.served _ _ (lookup_mem hl)⟩
    | none =>
      simp only
      have hsp := sys_path_has_pipeline_dir fs hfs s.load hg.load (parse r.nameStr) r.parent
      have hmono : ∀ x ∈ s.load.sysPath, x ∈ (getPipelineDefinition fs s.load (parse r.nameStr) r.parent).2.sysPath := by
        intro x hx
        unfold getPipelineDefinition
        cases getPipelinePath fs (parse r.nameStr) r.parent with
        | error e => exact hx
        | ok q =>
          simp only
          split
          · exact hx
          · exact addSysPath_mono fs _ _ _ hx
      cases hd : getPipelineDefinition fs s.load (parse r.nameStr) r.parent with
      | mk res ld =>
        rw [hd] at hsp hmono
        simp only at hsp hmono
        cases res with
        | error e =>
          simp only
          refine ⟨⟨?_, fun k p hm => hmono _ (hg.served k p hm)⟩, fun p h => by cases h⟩
          have hg' : Good (getPipelineDefinition fs s.load (parse r.nameStr) r.parent).2 := by
            unfold getPipelineDefinition
            have hfst := getPipelineDefinition_fst fs s.load (parse r.nameStr) r.parent
            rw [hd] at hfst
            simp only at hfst
            rw [← hfst]
            exact hg.load
          rw [hd] at hg'
          exact hg'
        | ok q =>
          simp only
          have := hsp q rfl
          refine ⟨⟨this.2, ?_⟩, fun p h => by cases h; exact this.1⟩
          intro k p hm
          simp only [List.mem_cons, Prod.mk.injEq] at hm
          rcases hm with ⟨_, rfl⟩ | hm
          · exact this.1
          · exact hmono _ (hg.served k p hm)

/-- `session_sys_path` — for EVERY session (look-ups, clears, `no_cache` toggles and ANY changes of the
    file system in between: files and directories appearing or disappearing, in particular a
    directory that `add_sys_path` saw absent earlier), whenever a look-up yields a pipeline file, that
    file's directory is on `sys.path` right then: custom step modules next to it are importable. -/
theorem session_sys_path (parse : String → Name) (ops : List SOp) :
    ∀ (fs : Fs) (nc : Bool) (s : Sess), FsOk fs → (∀ fs', SOp.fs fs' ∈ ops → FsOk fs') → SGood s →
    ∀ x ∈ runSessPath parse fs nc s ops, ∀ p, x.1 = .ok p → dirOf p ∈ x.2 := by
  induction ops with
  | nil => intro fs nc s _ _ _ x hx; simp [runSessPath] at hx
  | cons op ops ih =>
    intro fs nc s hfs hall hg x hx p hp
    have hall' : ∀ fs', SOp.fs fs' ∈ ops → FsOk fs' := fun fs' h => hall fs' (List.mem_cons_of_mem _ h)
    cases op with
    | req r =>
      have hr := request_sys_path parse fs hfs nc s r hg
      simp only [runSessPath, List.mem_cons] at hx
      rcases hx with rfl | hx
      · exact hr.2 p hp
      · exact ih fs nc _ hfs hall' hr.1 x hx p hp
    | fs fs' =>
      simp only [runSessPath] at hx
      exact ih fs' nc s (hall fs' List.mem_cons_self) hall' hg x hx p hp
    | clear =>
      simp only [runSessPath] at hx
      exact ih fs nc _ hfs hall' (sgood_clear s hg) x hx p hp
    | noCache b =>
      simp only [runSessPath] at hx
      exact ih fs b s hfs hall' hg x hx p hp
    | pyDir d =>
      simp only [runSessPath] at hx
      exact ih fs nc _ hfs hall' (sgood_pyDir fs s d hg) x hx p hp

/-- the repaired rule at work: `/late` is handed to `add_sys_path` while absent (remembered as
    missing), appears, and is then put on `sys.path` by the load of `/late/x.yaml`. -/
example :
    let fsA : Fs := { cwd := ["w"], builtin := ["b"], isFile := fun _ => false, dirExists := fun d => d == ["w"] }
    let fsB : Fs := { fsA with isFile := fun p => p == ["late", "x.yaml"], dirExists := fun d => d == ["w"] || d == ["late"] }
    let st1 := addSysPath fsA { fileCache := [], sysPath := [], known := [] } ["late"]
    st1.sysPath = [] ∧ st1.missing = [["late"]] ∧
    (getPipelineDefinition fsB st1 (.abs ["late", "x"]) none).2.sysPath = [["late"]] := by
  decide

/-! ### pype children at ANY depth

  `runChainR`: a root pipeline followed by any number of pype hops, each invoked from the pipeline
  the previous hop loaded; on any tree (symlinks, `..`), with `py_dir`s and step imports.
  `hopSpec … caller h` is the property text for ONE look-up (`loadSpec`, spelled out by
  `hop_file_rel_spec` / `hop_file_abs_spec` / `hop_custom_spec` below), made with the loader and
  the parent `get_arguments` derives from `caller`; `callerAt caller L i` is the chain's own caller
  for `i = 0` and the `PipelineInfo` of the pipeline loaded at hop `i-1` otherwise. -/

/-- `chain_spec` — for EVERY chain of hops (any length), any process state, any file system:
    (1) every pipeline loaded at hop `i` is what the property text prescribes for hop `i`'s name
        with the loader and parent derived from the pipeline loaded at hop `i-1` (by
        `hop_file_rel_spec`: the first existing candidate of the search list built from THAT file's
        directory — or not, per the hop's `resolveFromParent` / `parent` / `loader` keys);
    (2) only the last loaded pipeline can be one of pypyr's built-ins;
    (3) an error ends the chain: it is the error the property text prescribes for the first hop
        that was not loaded (for a relative name: the not-found text listing the places searched,
        `hop_not_found_lists_searched`) — or a step module of the last loaded pipeline was not found;
    (4) without an error every hop was loaded, unless a built-in ended the chain. -/
theorem chain_spec (fs : Fs) (custom : String → Option (Bool × Bool)) (has : Path → String → Bool)
    (importsOf : Loaded → List String) (rootLoader : Option String) (hops : List Hop) :
    ∀ (st : Proc) (caller : Option Info),
      (((runChainR fs custom has importsOf st caller rootLoader hops).1.map (·.1)).length ≤ hops.length) ∧
      (∀ i h ld, hops[i]? = some h →
          ((runChainR fs custom has importsOf st caller rootLoader hops).1.map (·.1))[i]? = some ld →
          hopSpec fs custom rootLoader
            (callerAt caller ((runChainR fs custom has importsOf st caller rootLoader hops).1.map (·.1)) i) h = .ok ld) ∧
      (∀ i ld, ((runChainR fs custom has importsOf st caller rootLoader hops).1.map (·.1))[i]? = some ld →
          i + 1 < ((runChainR fs custom has importsOf st caller rootLoader hops).1.map (·.1)).length →
          endsChain fs ld = false) ∧
      (∀ e, (runChainR fs custom has importsOf st caller rootLoader hops).2.1 = some e →
          (∃ h, hops[((runChainR fs custom has importsOf st caller rootLoader hops).1.map (·.1)).length]? = some h ∧
              hopSpec fs custom rootLoader
                (callerAt caller ((runChainR fs custom has importsOf st caller rootLoader hops).1.map (·.1))
                  ((runChainR fs custom has importsOf st caller rootLoader hops).1.map (·.1)).length) h = .error e) ∨
          (∃ x ∈ (runChainR fs custom has importsOf st caller rootLoader hops).1, ∃ m, (m, none) ∈ x.2 ∧
              e = modNotFoundMsg m)) ∧
      ((runChainR fs custom has importsOf st caller rootLoader hops).2.1 = none →
          ((runChainR fs custom has importsOf st caller rootLoader hops).1.map (·.1)).length = hops.length ∨
          ∃ ld, ((runChainR fs custom has importsOf st caller rootLoader hops).1.map (·.1)).getLast? = some ld ∧
            endsChain fs ld = true) := by
  induction hops with
  | nil =>
    intro st caller
    simp [runChainR]
  | cons h hs ih =>
    intro st caller
    have hspec := loadOneR_fst fs custom st.load (hopArgs rootLoader caller h).1 h (hopArgs rootLoader caller h).2
    cases hld : loadOneR fs custom st.load (hopArgs rootLoader caller h).1 h (hopArgs rootLoader caller h).2 with
    | mk res ld' =>
      rw [hld] at hspec
      simp only at hspec
      cases res with
      | error e =>
        simp only [runChainR, hld, List.map_nil, List.length_nil]
        refine ⟨by simp, by simp, by simp, ?_, by simp⟩
        intro e' he'
        simp only [Option.some.injEq] at he'
        subst he'
        exact Or.inl ⟨h, by simp, by simpa [hopSpec, callerAt] using hspec.symm⟩
      | ok ld =>
        have h0 : hopSpec fs custom rootLoader caller h = .ok ld := hspec.symm
        by_cases hend : endsChain fs ld = true
        · simp only [runChainR, hld, hend, if_true, List.map_cons, List.map_nil, List.length_cons, List.length_nil]
          refine ⟨by simp, ?_, by simp, by simp, ?_⟩
          · intro i h' ld1 hh hl
            cases i with
            | zero =>
              simp only [List.getElem?_cons_zero, Option.some.injEq] at hh hl
              subst hh hl
              exact h0
            | succ j => simp at hl
          · intro _
            exact Or.inr ⟨ld, by simp, hend⟩
        · have hend' : endsChain fs ld = false := by simpa using hend
          cases hfind : (importAll ld'.sysPath has st.modules (importsOf ld)).1.find? (fun x => x.2.isNone) with
          | some x =>
            simp only [runChainR, hld, hend', Bool.false_eq_true, if_false, hfind, List.map_cons, List.map_nil,
              List.length_cons, List.length_nil]
            refine ⟨by simp, ?_, by simp, ?_, by simp⟩
            · intro i h' ld1 hh hl
              cases i with
              | zero =>
                simp only [List.getElem?_cons_zero, Option.some.injEq] at hh hl
                subst hh hl
                exact h0
              | succ j => simp at hl
            · intro e he
              simp only [Option.some.injEq] at he
              subst he
              refine Or.inr ⟨_, List.mem_singleton.mpr rfl, x.1, ?_, rfl⟩
              have hm := List.mem_of_find?_eq_some hfind
              have hp := List.find?_some hfind
              obtain ⟨a, b⟩ := x
              cases b with
              | none => exact hm
              | some d => simp at hp
          | none =>
            obtain ⟨ih1, ih2, ih3, ih4, ih5⟩ :=
              ih { load := ld', modules := (importAll ld'.sysPath has st.modules (importsOf ld)).2 } (some (infoOf ld))
            simp only [runChainR, hld, hend', Bool.false_eq_true, if_false, hfind, List.map_cons, List.length_cons]
            refine ⟨by omega, ?_, ?_, ?_, ?_⟩
            · intro i h' ld1 hh hl
              cases i with
              | zero =>
                simp only [List.getElem?_cons_zero, Option.some.injEq] at hh hl
                subst hh hl
                exact h0
              | succ j =>
                simp only [List.getElem?_cons_succ] at hh hl
                rw [callerAt_cons]
                exact ih2 j h' ld1 hh hl
            · intro i ld1 hl hlt
              cases i with
              | zero =>
                simp only [List.getElem?_cons_zero, Option.some.injEq] at hl
                subst hl
                exact hend'
              | succ j =>
                simp only [List.getElem?_cons_succ] at hl
                exact ih3 j ld1 hl (by omega)
            · intro e he
              rcases ih4 e he with ⟨h', hh, hs'⟩ | ⟨x, hx, m, hm, hem⟩
              · refine Or.inl ⟨h', by simpa using hh, ?_⟩
                rw [callerAt_cons]
                exact hs'
              · exact Or.inr ⟨x, List.mem_cons_of_mem _ hx, m, hm, hem⟩
            · intro hn
              rcases ih5 hn with hlen | ⟨ldl, hl, he⟩
              · exact Or.inl (by omega)
              · refine Or.inr ⟨ldl, ?_, he⟩
                rw [List.getLast?_cons]
                simp [hl]

/-- one hop spelled out, file loader, relative name: the first existing file among
    `realpath(parent)/<name>.yaml` (only if a parent is given, its real path exists and is not the
    cwd), `cwd/<name>.yaml`, `cwd/pipelines/<name>.yaml`, `{pypyr}/pipelines/<name>.yaml`, resolved;
    when none exists the not-found error listing exactly those directories. -/
theorem hop_file_rel_spec (fs : Fs) (custom : String → Option (Bool × Bool)) (rootLoader : Option String)
    (caller : Option Info) (h : Hop) (parts : List String) (hn : h.name = .rel parts)
    (hl : effLoader (hopArgs rootLoader caller h).1 = fileLoader) :
    hopSpec fs custom rootLoader caller h =
      match (candidatesR fs (hopArgs rootLoader caller h).2 parts).find? fs.isFile with
      | some q => .ok (.file (fs.realpath q))
      | none => .error (notFoundMsg ("/".intercalate (fileParts parts))
                  (searchDirs fs ((hopArgs rootLoader caller h).2.map fs.realpath))) := by
  simp only [hopSpec, loadSpec, hl, if_true, hn, getPipelinePathR_rel]
  cases List.find? fs.isFile (candidatesR fs (hopArgs rootLoader caller h).2 parts) <;> rfl

/-- … absolute name: that path and nowhere else, whatever the caller -/
theorem hop_file_abs_spec (fs : Fs) (custom : String → Option (Bool × Bool)) (rootLoader : Option String)
    (caller : Option Info) (h : Hop) (parts : List String) (hn : h.name = .abs parts)
    (hl : effLoader (hopArgs rootLoader caller h).1 = fileLoader) :
    hopSpec fs custom rootLoader caller h =
      if fs.isFile (fileParts parts) = true then .ok (.file (fs.realpath (fileParts parts)))
      else .error (pathStr (fileParts parts) ++ " does not exist.") := by
  simp only [hopSpec, loadSpec, hl, if_true, hn, getPipelinePathR_abs]
  by_cases hf : fs.isFile (fileParts parts) = true <;> simp [hf]

/-- … another loader: it is handed the raw name and the (unresolved) parent; no file is looked for -/
theorem hop_custom_spec (fs : Fs) (custom : String → Option (Bool × Bool)) (rootLoader : Option String)
    (caller : Option Info) (h : Hop) (pc lc : Bool)
    (hl : effLoader (hopArgs rootLoader caller h).1 ≠ fileLoader)
    (hc : custom (effLoader (hopArgs rootLoader caller h).1) = some (pc, lc)) :
    hopSpec fs custom rootLoader caller h =
      .ok (.custom (effLoader (hopArgs rootLoader caller h).1) h.nameStr (hopArgs rootLoader caller h).2 pc lc) := by
  simp [hopSpec, loadSpec, hl, hc]

/-- the default hop (no `loader` / `resolveFromParent` / `parent` keys) below a file-loaded pipeline
    `p`: file loader, parent = the directory of `p` — at every depth. -/
theorem hop_default_args (rootLoader : Option String) (p : Path) (h : Hop)
    (h1 : h.pype.loader = none) (h2 : h.pype.resolveFromParent = none) (h3 : h.pype.parent = none) :
    hopArgs rootLoader (some (infoOf (.file p))) h = (some fileLoader, some (dirOf p)) := by
  simp [hopArgs, childLoader, childParent, infoOf, h1, h2, h3]

theorem effLoader_fileLoader : effLoader (some fileLoader) = fileLoader := by decide +kernel

/-- `chain_child_from_previous_file` — in EVERY chain: if hop `i` loaded the file `p` and hop `i+1`
    has a relative name and no steering keys, then what hop `i+1` loaded is the first existing
    candidate of the search list that starts with the directory of `p` (the RESOLVED file). -/
theorem chain_child_from_previous_file (fs : Fs) (custom : String → Option (Bool × Bool))
    (has : Path → String → Bool) (importsOf : Loaded → List String) (rootLoader : Option String) (hops : List Hop) (st : Proc)
    (caller : Option Info) (i : Nat) (p : Path) (h : Hop) (parts : List String) (ld : Loaded)
    (hp : ((runChainR fs custom has importsOf st caller rootLoader hops).1.map (·.1))[i]? = some (.file p))
    (hh : hops[i + 1]? = some h) (hn : h.name = .rel parts)
    (h1 : h.pype.loader = none) (h2 : h.pype.resolveFromParent = none) (h3 : h.pype.parent = none)
    (hl : ((runChainR fs custom has importsOf st caller rootLoader hops).1.map (·.1))[i + 1]? = some ld) :
    ∃ q, (candidatesR fs (some (dirOf p)) parts).find? fs.isFile = some q ∧ ld = .file (fs.realpath q) := by
  have hs := (chain_spec fs custom has importsOf rootLoader hops st caller).2.1 (i + 1) h ld hh hl
  have hc : callerAt caller ((runChainR fs custom has importsOf st caller rootLoader hops).1.map (·.1)) (i + 1)
      = some (infoOf (.file p)) := by simp [callerAt, hp]
  rw [hc] at hs
  have ha := hop_default_args rootLoader p h h1 h2 h3
  have hl' : effLoader (hopArgs rootLoader (some (infoOf (.file p))) h).1 = fileLoader := by
    rw [ha]; exact effLoader_fileLoader
  rw [hop_file_rel_spec fs custom rootLoader _ h parts hn hl', ha] at hs
  cases hf : List.find? fs.isFile (candidatesR fs (some (dirOf p)) parts) with
  | none => simp [hf] at hs
  | some q =>
    simp only [hf, Except.ok.injEq] at hs
    exact ⟨q, rfl, hs.symm⟩

/-- `hop_not_found_lists_searched` — a relative name that exists in none of its places ends the
    chain at that hop with the file name followed by the places searched, one per line, in search
    order (the parent as RESOLVED). -/
theorem hop_not_found_lists_searched (fs : Fs) (custom : String → Option (Bool × Bool))
    (rootLoader : Option String) (caller : Option Info) (h : Hop) (parts : List String)
    (hn : h.name = .rel parts) (hl : effLoader (hopArgs rootLoader caller h).1 = fileLoader)
    (hnone : ∀ q ∈ candidatesR fs (hopArgs rootLoader caller h).2 parts, fs.isFile q = false) :
    hopSpec fs custom rootLoader caller h =
      .error ("/".intercalate (fileParts parts) ++ " not found in any of the following:\n" ++
        "\n".intercalate ((searchDirs fs ((hopArgs rootLoader caller h).2.map fs.realpath)).map pathStr)) := by
  rw [hop_file_rel_spec fs custom rootLoader caller h parts hn hl]
  have : (candidatesR fs (hopArgs rootLoader caller h).2 parts).find? fs.isFile = none :=
    List.find?_eq_none.mpr (fun q hq => by simp [hnone q hq])
  rw [this]
  rfl

/-- a chain of depth 3 on `exFs3`: `/e/r.yaml` → `c1` (found next to it) → `c2` with
    `resolveFromParent: false` (found in the cwd although `/e/c2.yaml` exists) → `c3` (its caller is
    in the cwd: cwd, cwd/pipelines, built-ins) — not found, the places listed. -/
def exFs3 : Fs :=
  { cwd := ["w"], builtin := ["b"],
    isFile := fun p => p == ["e", "r.yaml"] || p == ["e", "c1.yaml"] || p == ["e", "c2.yaml"] || p == ["w", "c2.yaml"],
    dirExists := fun d => d == ["w"] || d == ["e"] || d == ["b"] }

def noKeys : PypeIn := { loader := none, resolveFromParent := none, parent := none }

example : (runChainR exFs3 (fun _ => none) (fun _ _ => false) (fun _ => [])
      { load := { fileCache := [], sysPath := [], known := [] } } none none
      [{ nameStr := "/e/r", name := .abs ["e", "r"], pype := noKeys },
       { nameStr := "c1", name := .rel ["c1"], pype := noKeys },
       { nameStr := "c2", name := .rel ["c2"], pype := { noKeys with resolveFromParent := some (.bool false) } },
       { nameStr := "c3", name := .rel ["c3"], pype := noKeys }]).1.map (·.1) =
      [.file ["e", "r.yaml"], .file ["e", "c1.yaml"], .file ["w", "c2.yaml"]] ∧
    (runChainR exFs3 (fun _ => none) (fun _ _ => false) (fun _ => [])
      { load := { fileCache := [], sysPath := [], known := [] } } none none
      [{ nameStr := "/e/r", name := .abs ["e", "r"], pype := noKeys },
       { nameStr := "c1", name := .rel ["c1"], pype := noKeys },
       { nameStr := "c2", name := .rel ["c2"], pype := { noKeys with resolveFromParent := some (.bool false) } },
       { nameStr := "c3", name := .rel ["c3"], pype := noKeys }]).2.1 =
      some "c3.yaml not found in any of the following:\n/w\n/w/pipelines\n/b" := by
  constructor <;> rfl

/-- `chain_sys_path` — along EVERY chain the `sys.path` invariant is kept and `sys.path` only grows:
    the directory of every file loaded (as resolved) and every existing `py_dir` is on `sys.path`
    from its load on — in particular when that pipeline's step modules are imported. -/
theorem chain_sys_path (fs : Fs) (hfs : FsOkR fs) (custom : String → Option (Bool × Bool))
    (has : Path → String → Bool) (importsOf : Loaded → List String) (rootLoader : Option String) (hops : List Hop) :
    ∀ (st : Proc) (caller : Option Info), Good st.load →
      Good (runChainR fs custom has importsOf st caller rootLoader hops).2.2.load ∧
      (∀ x ∈ st.load.sysPath, x ∈ (runChainR fs custom has importsOf st caller rootLoader hops).2.2.load.sysPath) ∧
      ∀ x ∈ (runChainR fs custom has importsOf st caller rootLoader hops).1, ∀ p, x.1 = .file p →
        dirOf p ∈ (runChainR fs custom has importsOf st caller rootLoader hops).2.2.load.sysPath := by
  induction hops with
  | nil => intro st caller hg; simp [runChainR, hg]
  | cons h hs ih =>
    intro st caller hg
    have hl := loadOneR_good fs hfs custom st.load hg (hopArgs rootLoader caller h).1 h (hopArgs rootLoader caller h).2
    cases hld : loadOneR fs custom st.load (hopArgs rootLoader caller h).1 h (hopArgs rootLoader caller h).2 with
    | mk res ld' =>
      rw [hld] at hl
      simp only at hl
      obtain ⟨hg', hmono, _, hfile⟩ := hl
      cases res with
      | error e =>
        simp only [runChainR, hld]
        exact ⟨hg', hmono, by simp⟩
      | ok ld =>
        by_cases hend : endsChain fs ld = true
        · simp only [runChainR, hld, hend, if_true]
          refine ⟨hg', hmono, ?_⟩
          intro x hx p hp
          simp only [List.mem_singleton] at hx
          subst hx
          simp only at hp
          subst hp
          exact hfile p rfl
        · have hend' : endsChain fs ld = false := by simpa using hend
          cases hfind : (importAll ld'.sysPath has st.modules (importsOf ld)).1.find? (fun x => x.2.isNone) with
          | some x =>
            simp only [runChainR, hld, hend', Bool.false_eq_true, if_false, hfind]
            refine ⟨hg', hmono, ?_⟩
            intro y hy p hp
            simp only [List.mem_singleton] at hy
            subst hy
            simp only at hp
            subst hp
            exact hfile p rfl
          | none =>
            obtain ⟨ihg, ihmono, ihfile⟩ :=
              ih { load := ld', modules := (importAll ld'.sysPath has st.modules (importsOf ld)).2 } (some (infoOf ld)) hg'
            simp only [runChainR, hld, hend', Bool.false_eq_true, if_false, hfind]
            refine ⟨ihg, fun x hx => ihmono x (hmono x hx), ?_⟩
            intro y hy p hp
            rcases List.mem_cons.mp hy with rfl | hy
            · simp only at hp
              subst hp
              exact ihmono _ (hfile p rfl)
            · exact ihfile y hy p hp

/-! ### symlinks and `..`: the children's parent and the `sys.path` entry are the TARGET's directory -/

/-- `child_parent_is_realpath_dir` — whatever a look-up finds, what it returns is the RESOLVED file
    (`find_pipeline`: `path.resolve()`): the file's real directory — not the directory of the
    candidate it was found as — is the parent a default pype child is looked up from first, and it
    is that directory which `load_pipeline_from_file` puts on `sys.path`. -/
theorem child_parent_is_realpath_dir (fs : Fs) (hfs : FsOkR fs) (st : LoadState) (hg : Good st)
    (name : Name) (parent : Option Path) (p : Path)
    (h : getPipelinePathR fs name parent = .ok p) :
    (∃ q, fs.isFile q = true ∧ p = fs.realpath q ∧
      (∀ parts, name = .abs parts → q = fileParts parts) ∧
      (∀ parts, name = .rel parts → (candidatesR fs parent parts).find? fs.isFile = some q)) ∧
    childParent noKeys (infoOf (.file p)) = some (dirOf p) ∧
    (getPipelineDefinitionR fs st name parent).1 = .ok p ∧
    dirOf p ∈ (getPipelineDefinitionR fs st name parent).2.sysPath := by
  have hfst := getPipelineDefinitionR_fst fs st name parent
  refine ⟨?_, by simp [childParent, childLoader, infoOf, noKeys], by rw [hfst, h], ?_⟩
  · cases name with
    | abs parts =>
      rw [getPipelinePathR_abs] at h
      by_cases hf : fs.isFile (fileParts parts) = true
      · simp only [hf, if_true, Except.ok.injEq] at h
        exact ⟨fileParts parts, hf, h.symm, ⟨fun ps hps => (by cases hps; rfl), fun ps hps => (by cases hps)⟩⟩
      · simp [hf] at h
    | rel parts =>
      rw [getPipelinePathR_rel] at h
      cases hf : List.find? fs.isFile (candidatesR fs parent parts) with
      | none => simp [hf] at h
      | some q =>
        simp only [hf, Except.ok.injEq] at h
        exact ⟨q, List.find?_some hf, h.symm, ⟨fun ps hps => (by cases hps), fun ps hps => (by cases hps; exact hf)⟩⟩
  · exact (getPipelineDefinitionR_good fs hfs st hg name parent).2.2 p (by rw [hfst, h])

/-- `/e/link.yaml` is a symlink to `/t/real.yaml`; `/e/c.yaml` and `/t/c.yaml` both exist. -/
def exFsLink : Fs :=
  { cwd := ["w"], builtin := ["b"],
    isFile := fun p => p == ["e", "link.yaml"] || p == ["t", "real.yaml"] || p == ["e", "c.yaml"] || p == ["t", "c.yaml"],
    dirExists := fun d => d == ["w"] || d == ["e"] || d == ["t"] || d == ["b"],
    realpath := fun p => if p == ["e", "link.yaml"] then ["t", "real.yaml"] else p }

/-- `symlinked_pipeline_witness` — the pipeline reached as `/e/link` is the file `/t/real.yaml`: its
    child `c` is `/t/c.yaml` (not `/e/c.yaml`, next to the link), and `/t` (not `/e`) goes on
    `sys.path`: a step module next to the LINK is not importable through this load. -/
theorem symlinked_pipeline_witness :
    (runChainR exFsLink (fun _ => none) (fun _ _ => false) (fun _ => [])
      { load := { fileCache := [], sysPath := [], known := [] } } none none
      [{ nameStr := "/e/link", name := .abs ["e", "link"], pype := noKeys },
       { nameStr := "c", name := .rel ["c"], pype := noKeys }]).1.map (·.1) =
      [.file ["t", "real.yaml"], .file ["t", "c.yaml"]] ∧
    (runChainR exFsLink (fun _ => none) (fun _ _ => false) (fun _ => [])
      { load := { fileCache := [], sysPath := [], known := [] } } none none
      [{ nameStr := "/e/link", name := .abs ["e", "link"], pype := noKeys },
       { nameStr := "c", name := .rel ["c"], pype := noKeys }]).2.2.load.sysPath = [["t"]] := by
  constructor <;> rfl

/-- on a normalised symlink-free tree (`realpath` the identity) the `…R` look-up IS the look-up of
    the first layer: everything proved about `getPipelinePath` above carries over. -/
theorem getPipelinePathR_eq (fs : Fs) (hid : ∀ p, fs.realpath p = p) (name : Name) (parent : Option Path) :
    getPipelinePathR fs name parent = getPipelinePath fs name parent := by
  have hp : parent.map fs.realpath = parent := by cases parent <;> simp [hid]
  unfold getPipelinePathR
  rw [hp]
  cases getPipelinePath fs name parent <;> simp [hid]

theorem getPipelineDefinitionR_eq (fs : Fs) (hid : ∀ p, fs.realpath p = p) (st : LoadState) (name : Name)
    (parent : Option Path) :
    getPipelineDefinitionR fs st name parent = getPipelineDefinition fs st name parent := by
  unfold getPipelineDefinitionR getPipelineDefinition
  rw [getPipelinePathR_eq fs hid]

theorem loadOneR_eq (fs : Fs) (hid : ∀ p, fs.realpath p = p) (custom : String → Option (Bool × Bool))
    (st : LoadState) (loader : Option String) (h : Hop) (parent : Option Path) (hpy : h.pyDir = none) :
    loadOneR fs custom st loader h parent = loadOne fs custom st loader h parent := by
  unfold loadOneR loadOne
  simp only [hpy, addPyDir, getPipelineDefinitionR_eq fs hid]

theorem runChain_cons (fs : Fs) (custom : String → Option (Bool × Bool)) (st : LoadState) (caller : Option Info)
    (rootLoader : Option String) (h : Hop) (hs : List Hop) :
    runChain fs custom st caller rootLoader (h :: hs) =
      match loadOne fs custom st (hopArgs rootLoader caller h).1 h (hopArgs rootLoader caller h).2 with
      | (.error e, st') => ([], some e, st')
      | (.ok ld, st') =>
        if endsChain fs ld then ([ld], none, st')
        else (ld :: (runChain fs custom st' (some (infoOf ld)) rootLoader hs).1,
              (runChain fs custom st' (some (infoOf ld)) rootLoader hs).2.1,
              (runChain fs custom st' (some (infoOf ld)) rootLoader hs).2.2) := by
  cases caller <;> rfl

/-- `runChain` (first layer: no symlinks, no `py_dir`, no imports) is `runChainR` on such a tree —
    so `chain_spec`, `chain_child_from_previous_file` and `chain_sys_path` speak about it too. -/
theorem runChain_eq_runChainR (fs : Fs) (hid : ∀ p, fs.realpath p = p) (custom : String → Option (Bool × Bool))
    (has : Path → String → Bool) (importsOf : Loaded → List String) (himp : ∀ ld, importsOf ld = [])
    (rootLoader : Option String) (hops : List Hop) (hplain : ∀ h ∈ hops, h.pyDir = none) :
    ∀ (st : Proc) (caller : Option Info),
      runChain fs custom st.load caller rootLoader hops =
        (((runChainR fs custom has importsOf st caller rootLoader hops).1.map (·.1)),
          (runChainR fs custom has importsOf st caller rootLoader hops).2.1,
          (runChainR fs custom has importsOf st caller rootLoader hops).2.2.load) := by
  induction hops with
  | nil => intro st caller; rfl
  | cons h hs ih =>
    intro st caller
    have hpy := hplain h List.mem_cons_self
    have ih' := ih (fun x hx => hplain x (List.mem_cons_of_mem _ hx))
    have hl := loadOneR_eq fs hid custom st.load (hopArgs rootLoader caller h).1 h (hopArgs rootLoader caller h).2 hpy
    rw [runChain_cons]
    simp only [runChainR]
    rw [hl]
    cases hld : loadOne fs custom st.load (hopArgs rootLoader caller h).1 h (hopArgs rootLoader caller h).2 with
    | mk res ld' =>
      cases res with
      | error e => rfl
      | ok ld =>
        simp only
        by_cases hend : endsChain fs ld = true
        · simp [hend]
        · have hend' : endsChain fs ld = false := by simpa using hend
          simp only [hend', Bool.false_eq_true, if_false, himp ld, importAll, List.find?_nil]
          rw [ih' { load := ld', modules := st.modules } (some (infoOf ld))]
          simp

/-! ### "importable": which file an import binds -/

/-- `module_next_to_pipeline_wins_iff_no_earlier` — `d` is on `sys.path` (first at the position
    shown) and holds a module `m`. `import m` binds `d`'s file IFF `sys.modules` already has `m`
    from `d`, or `m` has not been imported yet and NO entry of `sys.path` before `d` holds an `m`.
    Being on `sys.path` (`sys_path_has_pipeline_dir`) is necessary for a module next to a pipeline
    to be importable, not sufficient: `add_sys_path` appends. -/
theorem module_next_to_pipeline_wins_iff_no_earlier (pre post : List Path) (d : Path)
    (has : Path → String → Bool) (loaded : List (String × Path)) (m : String)
    (hd : has d m = true) (hpre : d ∉ pre) :
    resolveModule (pre ++ d :: post) has loaded m = some d ↔
      loaded.lookup m = some d ∨ (loaded.lookup m = none ∧ ∀ e ∈ pre, has e m = false) := by
  unfold resolveModule
  cases hl : loaded.lookup m with
  | some x => simp
  | none =>
    simp only [reduceCtorEq, false_or, true_and]
    constructor
    · intro hf e he
      cases hem : has e m with
      | false => rfl
      | true =>
        exfalso
        obtain ⟨as, bs, heq, hbefore⟩ := List.find?_eq_some_iff_append.mp hf |>.2
        -- `e ∈ pre` has `m`: the first hit is in `pre`, so it cannot be `d`
        have hfind : ∃ x, (pre ++ d :: post).find? (fun d => has d m) = some x ∧ x ∈ pre := by
          rw [List.find?_append]
          cases hp : pre.find? (fun d => has d m) with
          | some x => exact ⟨x, rfl, List.mem_of_find?_eq_some hp⟩
          | none =>
            have := List.find?_eq_none.mp hp e he
            simp [hem] at this
        obtain ⟨x, hx, hxp⟩ := hfind
        rw [hf] at hx
        cases hx
        exact hpre hxp
    · intro hnone
      rw [List.find?_append]
      have : pre.find? (fun d => has d m) = none :=
        List.find?_eq_none.mpr (fun e he => by simp [hnone e he])
      simp [this, hd]

/-- … hence: the module next to a freshly loaded pipeline is the one its steps get exactly when it
    is not shadowed — stated on the state a load leaves behind. -/
theorem import_after_load (fs : Fs) (hfs : FsOkR fs) (st : LoadState) (hg : Good st) (name : Name)
    (parent : Option Path) (p : Path) (h : getPipelinePathR fs name parent = .ok p)
    (has : Path → String → Bool) (loaded : List (String × Path)) (m : String) (hm : has (dirOf p) m = true) :
    ∃ pre post, (getPipelineDefinitionR fs st name parent).2.sysPath = pre ++ dirOf p :: post ∧ dirOf p ∉ pre ∧
      (resolveModule (getPipelineDefinitionR fs st name parent).2.sysPath has loaded m = some (dirOf p) ↔
        loaded.lookup m = some (dirOf p) ∨ (loaded.lookup m = none ∧ ∀ e ∈ pre, has e m = false)) := by
  have hmem := (child_parent_is_realpath_dir fs hfs st hg name parent p h).2.2.2
  obtain ⟨pre, post, heq, hpre⟩ := List.eq_append_cons_of_mem hmem
  refine ⟨pre, post, heq, hpre, ?_⟩
  rw [heq]
  exact module_next_to_pipeline_wins_iff_no_earlier pre post (dirOf p) has loaded m hm hpre

/-- `/a/p.yaml` and `/b/p.yaml` each have a `mystep.py` next to them. -/
def exFsTwo : Fs :=
  { cwd := ["w"], builtin := ["b0"],
    isFile := fun p => p == ["a", "p.yaml"] || p == ["b", "p.yaml"],
    dirExists := fun d => d == ["w"] || d == ["a"] || d == ["b"] || d == ["b0"] }

def exHas : Path → String → Bool := fun d m => (d == ["a"] || d == ["b"] || d == ["w"]) && m == "mystep"

/-- `shadow_witness` — two pipelines in different directories, each with its own `mystep` next to
    it, run one after the other in one process: both directories are on `sys.path`, yet the second
    pipeline's `import mystep` binds the FIRST pipeline's file (already in `sys.modules`; and `/a`
    is ahead of `/b` on `sys.path` anyway). With `--dir` at its default (the cwd, which also has a
    `mystep`) even the first pipeline gets the cwd's file. -/
theorem shadow_witness :
    let hopA : Hop := { nameStr := "/a/p", name := .abs ["a", "p"], pype := noKeys }
    let hopB : Hop := { nameStr := "/b/p", name := .abs ["b", "p"], pype := noKeys }
    let st0 : Proc := { load := { fileCache := [], sysPath := [["site"]], known := [] } }
    let r1 := runChainR exFsTwo (fun _ => none) exHas (fun _ => ["mystep"]) st0 none none [hopA]
    let r2 := runChainR exFsTwo (fun _ => none) exHas (fun _ => ["mystep"]) r1.2.2 none none [hopB]
    r1.1 = [(.file ["a", "p.yaml"], [("mystep", some ["a"])])] ∧
    r2.1 = [(.file ["b", "p.yaml"], [("mystep", some ["a"])])] ∧
    r2.2.2.load.sysPath = [["site"], ["a"], ["b"]] ∧
    (runChainR exFsTwo (fun _ => none) exHas (fun _ => ["mystep"]) st0 none none [{ hopA with pyDir := some ["w"] }]).1 =
      [(.file ["a", "p.yaml"], [("mystep", some ["w"])])] := by
  refine ⟨rfl, rfl, rfl, rfl⟩

/-- the cure is not in `sys.path` alone: with `/b` AHEAD of `/a` the second import is still served
    from `sys.modules`. -/
example : resolveModule [["b"], ["a"]] exHas [("mystep", ["a"])] "mystep" = some ["a"] ∧
    resolveModule [["b"], ["a"]] exHas [] "mystep" = some ["b"] := by
  constructor <;> rfl

/-! ### a relative `parent` is read against the OS cwd of the moment, not `config.cwd` -/

/-- `relative_parent_reads_os_cwd` — a relative parent `rel` is the directory `os.getcwd()/rel` as
    it is when the look-up runs; an absolute one is itself; `config.cwd` (`fs.cwd`) plays no part in
    reading the parent (only in the cwd and cwd/pipelines candidates that follow it). -/
theorem relative_parent_reads_os_cwd (fs : Fs) (osCwd : Path) (name : Name) (parts : List String) (p : Path) :
    getPipelinePathA fs osCwd name (some (.rel parts)) = getPipelinePathR fs name (some (osCwd ++ parts)) ∧
    getPipelinePathA fs osCwd name (some (.abs p)) = getPipelinePathR fs name (some p) ∧
    getPipelinePathA fs osCwd name none = getPipelinePathR fs name none := ⟨rfl, rfl, rfl⟩

/-- imported in `/w`, then `os.chdir('/e')`: the relative parent `sub` is `/e/sub`, not `/w/sub`,
    while the fall-through candidates are still `/w` and `/w/pipelines`. -/
def exFsRel : Fs :=
  { cwd := ["w"], builtin := ["b"],
    isFile := fun p => p == ["e", "sub", "x.yaml"] || p == ["w", "sub", "x.yaml"] || p == ["w", "y.yaml"],
    dirExists := fun d => d == ["w"] || d == ["e"] || d == ["e", "sub"] || d == ["w", "sub"] || d == ["b"] }

example :
    getPipelinePathA exFsRel ["e"] (.rel ["x"]) (some (.rel ["sub"])) = .ok ["e", "sub", "x.yaml"] ∧
    getPipelinePathA exFsRel ["w"] (.rel ["x"]) (some (.rel ["sub"])) = .ok ["w", "sub", "x.yaml"] ∧
    getPipelinePathA exFsRel ["e"] (.rel ["y"]) (some (.rel ["sub"])) = .ok ["w", "y.yaml"] := by
  refine ⟨rfl, rfl, rfl⟩


/-! ## The configured pipelines sub-directory: step 4 follows the effective configuration -/

/-- the layers above are the default instance -/
theorem getPipelinePathS_default (fs : Fs) (name : Name) (parent : Option Path) :
    getPipelinePathS fs ["pipelines"] name parent = getPipelinePath fs name parent := rfl

/-- **Resolution order with a configured sub-directory** (every file system, every `sub`): the first
    existing candidate among parent (if it counts), cwd, cwd/`sub`, built-ins; when none exists the error
    lists exactly those places - `cwd/sub`, not `cwd/pipelines`. -/
theorem resolve_first_existing_S (fs : Fs) (sub parts : List String) (parent : Option Path) :
    getPipelinePathS fs sub (.rel parts) parent =
      match ((searchDirsS fs sub parent).map (· ++ fileParts parts)).find? fs.isFile with
      | some p => .ok p
      | none => .error ("/".intercalate (fileParts parts) ++ " not found in any of the following:\n" ++
                        "\n".intercalate ((searchDirsS fs sub parent).map pathStr)) := by
  simp only [getPipelinePathS, findPipeline_eq_find]
  cases List.find? fs.isFile (List.map (fun x => x ++ fileParts parts) (searchDirsS fs sub parent)) <;> rfl

theorem searchDirsS_root (fs : Fs) (sub : List String) :
    searchDirsS fs sub none = [fs.cwd, fs.cwd ++ sub, fs.builtin] := rfl

/-- the value of `config.pipelines_subdir` after a run of configuration changes -/
def lastConfig (c : List String) : List SubOp → List String
  | [] => c
  | .setConfig s :: rest => lastConfig s rest
  | _ :: rest => lastConfig c rest

def onlyConfig : List SubOp → Bool
  | [] => true
  | .setConfig _ :: rest => onlyConfig rest
  | _ => false

/-- **Look-up time**: as long as `pypyr.loaders.file` has not been imported (`frozen = none`: nothing but
    configuration happened in the process so far - `config.init()`, assignments), the first pipeline load
    uses the sub-directory of the configuration in force AT THAT LOAD, whatever the history of settings. -/
theorem first_lookup_uses_effective_config (fs : Fs) (pre rest : List SubOp) (p : SubProc) (n : Name)
    (hpre : onlyConfig pre = true) (hf : p.frozen = none) :
    (runSub fs p (pre ++ .lookup n :: rest)).head? =
      some (getPipelinePathS fs (lastConfig p.configSubdir pre) n none) := by
  induction pre generalizing p with
  | nil =>
    simp [runSub, SubProc.sub, SubProc.imported, hf, lastConfig]
  | cons o os ih =>
    cases o with
    | setConfig s =>
      simp only [List.cons_append, runSub, lastConfig]
      exact ih { p with configSubdir := s } (by simpa [onlyConfig] using hpre) hf
    | importLoader => simp [onlyConfig] at hpre
    | lookup _ => simp [onlyConfig] at hpre
    | lookupChild _ => simp [onlyConfig] at hpre

/-- what the look-ups of a process yield when the constant is fixed to `s` -/
def lookupsWith (fs : Fs) (s : List String) : Option Path → List SubOp → List (Except String Path)
  | _, [] => []
  | l, .setConfig _ :: rest => lookupsWith fs s l rest
  | l, .importLoader :: rest => lookupsWith fs s l rest
  | l, .lookup n :: rest =>
    let r := getPipelinePathS fs s n none
    r :: lookupsWith fs s (match r with | .ok f => some f | .error _ => l) rest
  | l, .lookupChild n :: rest =>
    let r := getPipelinePathS fs s n (l.map dirOf)
    r :: lookupsWith fs s (match r with | .ok f => some f | .error _ => l) rest

/-- **… and where the code reads it**: the module constant is fixed at import. Once
    `pypyr.loaders.file` is imported with the value `s`, every later look-up of the process uses `s`,
    whatever `config.pipelines_subdir` becomes afterwards. -/
theorem frozen_at_import (fs : Fs) (ops : List SubOp) (c s : List String) (l : Option Path) :
    runSub fs { configSubdir := c, frozen := some s, last := l } ops = lookupsWith fs s l ops := by
  induction ops generalizing c l with
  | nil => rfl
  | cons o os ih =>
    cases o with
    | setConfig s' => simp only [runSub, lookupsWith]; exact ih s' l
    | importLoader => simp only [runSub, lookupsWith, SubProc.imported]; exact ih c l
    | lookup n =>
      simp only [runSub, lookupsWith, SubProc.sub, SubProc.imported, Option.getD_some]
      congr 1
      exact ih c _
    | lookupChild n =>
      simp only [runSub, lookupsWith, SubProc.sub, SubProc.imported, Option.getD_some]
      congr 1
      exact ih c _

/-- the command line and the documented API order (import, `config.init()`, run): with
    `pipelines_subdir: pipes` configured, a pipeline only in `cwd/pipes` is found, a same-named file in
    `cwd/pipelines` is not in the sequence; had the loader been imported BEFORE the configuration was
    read, it would be the other way round (the hypothesis `frozen = none` is needed). -/
def exSubFs : Fs :=
  { cwd := ["w"], builtin := ["B"],
    isFile := fun p => p == ["w", "pipes", "hello.yaml"] || p == ["w", "pipelines", "hello.yaml"] || p == ["w", "pipes", "only.yaml"],
    dirExists := fun _ => true }

theorem lazy_vs_eager_import_witness :
    runSub exSubFs {} [.setConfig ["pipes"], .lookup (.rel ["hello"]), .lookup (.rel ["only"])] =
      [.ok ["w", "pipes", "hello.yaml"], .ok ["w", "pipes", "only.yaml"]] ∧
    runSub exSubFs {} [.importLoader, .setConfig ["pipes"], .lookup (.rel ["hello"]), .lookup (.rel ["only"])] =
      [.ok ["w", "pipelines", "hello.yaml"],
       .error "only.yaml not found in any of the following:\n/w\n/w/pipelines\n/B"] ∧
    runSub exSubFs {} [.setConfig ["pipes"], .lookup (.rel ["nope"])] =
      [.error "nope.yaml not found in any of the following:\n/w\n/w/pipes\n/B"] := by
  refine ⟨?_, ?_, ?_⟩ <;> rfl

/-! ## Pipeline names as arbitrary strings: `.yaml` is APPENDED to the name, nothing is cut off

`file_name = f'{pipeline_name}.yaml'`. Different names never share a file name (`fileNameOf_injective`), so a
file named after ANOTHER name — the stem of `build.v2` (`build.yaml`), the name without the suffix, `name.yml` —
is never what a name resolves to, and whether such a file exists plays no part in the look-up
(`file_of_other_name_never_chosen`, `resolution_reads_only_own_candidates`, `…_N`); the not-found error carries
the requested file name in full (`not_found_names_requested_file`, `…_N`). -/

/-- different names, different file names — for ALL strings (dots, spaces, `.yaml` already there, …) -/
theorem fileNameOf_injective (a b : String) (h : fileNameOf a = fileNameOf b) : a = b :=
  (String.append_left_inj ".yaml").mp h

theorem fileNameOf_ne_of_ne (a b : String) (h : a ≠ b) : fileNameOf a ≠ fileNameOf b :=
  fun e => h (fileNameOf_injective a b e)

example : fileNameOf "build.v2" = "build.v2.yaml" ∧ fileNameOf "build.v2" ≠ fileNameOf "build" ∧
    fileNameOf "p.yaml" = "p.yaml.yaml" ∧ fileNameOf "a/" = "a/.yaml" :=
  ⟨rfl, fileNameOf_ne_of_ne _ _ (by decide), rfl, rfl⟩

/-- the file name of a nested name: the directory components as they are, `.yaml` appended to the last -/
theorem fileParts_append_last (ds : List String) (x : String) : fileParts (ds ++ [x]) = ds ++ [fileNameOf x] := by
  induction ds with
  | nil => rfl
  | cons d ds ih =>
    cases hds : ds ++ [x] with
    | nil => simp at hds
    | cons y ys =>
      have : fileParts (d :: y :: ys) = d :: fileParts (y :: ys) := by simp [fileParts]
      rw [List.cons_append, hds, this, ← hds, ih, List.cons_append]

theorem fileParts_length (a : List String) : (fileParts a).length = a.length := by
  induction a with
  | nil => rfl
  | cons x xs ih =>
    cases xs with
    | nil => rfl
    | cons y ys => simp only [fileParts, List.length_cons] at ih ⊢; omega

/-- different names (component lists), different file paths -/
theorem fileParts_injective (a b : List String) (h : fileParts a = fileParts b) : a = b := by
  induction a generalizing b with
  | nil =>
    cases b with
    | nil => rfl
    | cons y ys => have := congrArg List.length h; rw [fileParts_length, fileParts_length] at this; simp at this
  | cons x xs ih =>
    cases b with
    | nil => have := congrArg List.length h; rw [fileParts_length, fileParts_length] at this; simp at this
    | cons y ys =>
      cases xs with
      | nil =>
        cases ys with
        | nil =>
          simp only [fileParts, List.cons.injEq, and_true] at h
          rw [fileNameOf_injective x y h]
        | cons z zs =>
          have := congrArg List.length h; rw [fileParts_length, fileParts_length] at this; simp at this
      | cons x' xs' =>
        cases ys with
        | nil => have := congrArg List.length h; rw [fileParts_length, fileParts_length] at this; simp at this
        | cons z zs =>
          simp only [fileParts, List.cons.injEq] at h
          rw [h.1, ih (z :: zs) h.2]

/-- `file_of_other_name_never_chosen`: what a relative name `n` resolves to is `<dir>/<n>.yaml` for one of the
    searched directories, it exists, and it is NOT the candidate `<dir>/<m>.yaml` of any other name `m` in
    that directory — a decoy named after the stem of `n`, after `n` without the suffix, … is never run. -/
theorem file_of_other_name_never_chosen (fs : Fs) (n m : List String) (hnm : n ≠ m) (parent : Option Path) (p : Path)
    (h : getPipelinePath fs (.rel n) parent = .ok p) :
    ∃ d ∈ searchDirs fs parent, p = d ++ fileParts n ∧ fs.isFile p = true ∧ p ≠ d ++ fileParts m := by
  obtain ⟨hf, before, after, hc, _⟩ := resolve_first_existing_pos fs n parent p h
  have hp : p ∈ candidates fs parent n := by rw [hc]; simp
  obtain ⟨d, hd, rfl⟩ := List.mem_map.mp hp
  exact ⟨d, hd, rfl, hf, fun e => hnm (fileParts_injective n m (List.append_cancel_left e))⟩

/-- … the same for an absolute name -/
theorem abs_file_of_other_name_never_chosen (fs : Fs) (n m : List String) (hnm : n ≠ m) (parent : Option Path) (p : Path)
    (h : getPipelinePath fs (.abs n) parent = .ok p) : p = fileParts n ∧ p ≠ fileParts m := by
  rw [resolve_absolute_only] at h
  split at h
  · cases h; exact ⟨rfl, fun e => hnm (fileParts_injective n m e)⟩
  · cases h

/-- the look-up of `n` depends on the files of the file system ONLY through the existence of `n`'s own
    candidates: two file systems that agree on those (and on the directories) resolve `n` alike, whatever
    other files — decoys of any name, in any searched place — one has and the other has not. -/
theorem resolution_reads_only_own_candidates (fs fs' : Fs) (n : List String) (parent : Option Path)
    (hcwd : fs.cwd = fs'.cwd) (hb : fs.builtin = fs'.builtin) (hdir : fs.dirExists = fs'.dirExists)
    (hown : ∀ q ∈ candidates fs parent n, fs.isFile q = fs'.isFile q) :
    getPipelinePath fs (.rel n) parent = getPipelinePath fs' (.rel n) parent := by
  have hs : searchDirs fs' parent = searchDirs fs parent := by
    simp only [searchDirs, cwdPipelines, hcwd, hb, hdir]
  have hc : candidates fs' parent n = candidates fs parent n := by simp only [candidates, hs]
  rw [resolve_first_existing, resolve_first_existing, hc, hs]
  have : (candidates fs parent n).find? fs.isFile = (candidates fs parent n).find? fs'.isFile := by
    generalize candidates fs parent n = cs at hown
    induction cs with
    | nil => rfl
    | cons c cs ih =>
      simp only [List.find?_cons, hown c (by simp)]
      rw [ih (fun q hq => hown q (by simp [hq]))]
  rw [this]

/-- decoy file system: as `exFsD`, plus / minus the decoys `build.yaml` in every searched place -/
def exFsD (decoys : Bool) : Fs :=
  { cwd := ["w"], builtin := ["b"],
    isFile := fun p => p == ["w", "pipelines", "build.v2.yaml"] ||
      (decoys && (p == ["p", "build.yaml"] || p == ["w", "build.yaml"] || p == ["w", "pipelines", "build.yaml"])),
    dirExists := fun d => d == ["w"] || d == ["w", "pipelines"] || d == ["b"] || d == ["p"] }

example : getPipelinePath (exFsD true) (.rel ["build.v2"]) (some ["p"]) = .ok ["w", "pipelines", "build.v2.yaml"] ∧
    getPipelinePath (exFsD false) (.rel ["build.v2"]) (some ["p"]) = .ok ["w", "pipelines", "build.v2.yaml"] ∧
    getPipelinePath (exFsD true) (.rel ["build"]) (some ["p"]) = .ok ["p", "build.yaml"] ∧
    (["build.v2"] : List String) ≠ ["build"] := by
  refine ⟨rfl, rfl, rfl, by decide⟩

example : getPipelinePath (exFsD true) (.rel ["build.v2"]) (some ["p"]) =
    getPipelinePath (exFsD false) (.rel ["build.v2"]) (some ["p"]) :=
  resolution_reads_only_own_candidates _ _ _ _ rfl rfl rfl (by decide +kernel)

/-- `not_found_names_requested_file`: when none of `n`'s candidates exists, the error names the requested file —
    the directory components as written and `<last>.yaml` with the last component in FULL — and the searched
    directories. -/
theorem not_found_names_requested_file (fs : Fs) (ds : List String) (x : String) (parent : Option Path)
    (h : ∀ q ∈ candidates fs parent (ds ++ [x]), fs.isFile q = false) :
    getPipelinePath fs (.rel (ds ++ [x])) parent =
      .error (notFoundMsg ("/".intercalate (ds ++ [fileNameOf x])) (searchDirs fs parent)) := by
  rw [(not_found_lists_searched fs (ds ++ [x]) parent h).1, fileParts_append_last]
  rfl

example : getPipelinePath (exFsD true) (.rel ["sub", "grand.v1.0"]) (some ["p"]) =
    .error "sub/grand.v1.0.yaml not found in any of the following:\n/p\n/w\n/w/pipelines\n/b" := by
  rfl

/-! ### the same on the raw string (`getPipelinePathN`: any name, also with empty / `.` segments) -/

/-- the string layer is the layer above wherever the name is clean: when pathlib's reading of `<name>.yaml` is
    `fileParts parts` and the string is those components joined -/
theorem getPipelinePathN_eq_S (fs : Fs) (sub : List String) (name : String) (parts : List String) (parent : Option Path)
    (hrel : (fileNameOf name).startsWith "/" = false)
    (hparts : partsOfStr (fileNameOf name) = fileParts parts)
    (hstr : fileNameOf name = "/".intercalate (fileParts parts)) :
    getPipelinePathN fs sub name parent = getPipelinePathS fs sub (.rel parts) parent := by
  simp only [getPipelinePathN, getPipelinePathS, hrel, hparts, ← hstr]
  rfl

theorem getPipelinePathN_eq_S_abs (fs : Fs) (sub : List String) (name : String) (parts : List String) (parent : Option Path)
    (habs : (fileNameOf name).startsWith "/" = true)
    (hparts : partsOfStr (fileNameOf name) = fileParts parts) :
    getPipelinePathN fs sub name parent = getPipelinePathS fs sub (.abs parts) parent := by
  simp only [getPipelinePathN, getPipelinePathS, habs, hparts]
  rfl

example (fs : Fs) (parent : Option Path) :
    getPipelinePathN fs ["pipelines"] "sub/grand.v1.0" parent = getPipelinePath fs (.rel ["sub", "grand.v1.0"]) parent := by
  rw [getPipelinePathN_eq_S fs _ "sub/grand.v1.0" ["sub", "grand.v1.0"] parent (by decide +kernel) (by decide +kernel)
    (by decide +kernel), getPipelinePathS_default]

/-- for EVERY string: what a relative name resolves to is `<dir>/<pathlib reading of name.yaml>` for a searched
    directory, and it exists -/
theorem resolve_first_existing_N (fs : Fs) (sub : List String) (name : String) (parent : Option Path)
    (hrel : (fileNameOf name).startsWith "/" = false) :
    getPipelinePathN fs sub name parent =
      match ((searchDirsS fs sub parent).map (· ++ partsOfStr (fileNameOf name))).find? fs.isFile with
      | some p => .ok p
      | none => .error (notFoundMsg (fileNameOf name) (searchDirsS fs sub parent)) := by
  simp only [getPipelinePathN, hrel, findPipeline_eq_find]
  rfl

/-- for EVERY string: the not-found error carries exactly `name ++ ".yaml"` and the searched directories -/
theorem not_found_names_requested_file_N (fs : Fs) (sub : List String) (name : String) (parent : Option Path) (e : String)
    (hrel : (fileNameOf name).startsWith "/" = false)
    (h : getPipelinePathN fs sub name parent = .error e) :
    e = name ++ ".yaml" ++ " not found in any of the following:\n" ++
          "\n".intercalate ((searchDirsS fs sub parent).map pathStr) ∧
    ∀ d ∈ searchDirsS fs sub parent, fs.isFile (d ++ partsOfStr (fileNameOf name)) = false := by
  rw [resolve_first_existing_N fs sub name parent hrel] at h
  split at h
  · cases h
  · rename_i hnone
    cases h
    refine ⟨rfl, fun d hd => ?_⟩
    have := List.find?_eq_none.mp hnone (d ++ partsOfStr (fileNameOf name)) (List.mem_map.mpr ⟨d, hd, rfl⟩)
    simpa using this

/-- for EVERY string: the look-up reads the files only through the name's own candidates -/
theorem resolution_reads_only_own_candidates_N (fs fs' : Fs) (sub : List String) (name : String) (parent : Option Path)
    (hcwd : fs.cwd = fs'.cwd) (hb : fs.builtin = fs'.builtin) (hdir : fs.dirExists = fs'.dirExists)
    (hown : ∀ d ∈ searchDirsS fs sub parent, fs.isFile (d ++ partsOfStr (fileNameOf name)) =
                                              fs'.isFile (d ++ partsOfStr (fileNameOf name)))
    (hownAbs : fs.isFile (partsOfStr (fileNameOf name)) = fs'.isFile (partsOfStr (fileNameOf name))) :
    getPipelinePathN fs sub name parent = getPipelinePathN fs' sub name parent := by
  have hs : searchDirsS fs' sub parent = searchDirsS fs sub parent := by
    simp only [searchDirsS, hcwd, hb, hdir]
  cases habs : (fileNameOf name).startsWith "/" with
  | true => simp [getPipelinePathN, habs, hownAbs]
  | false =>
    rw [resolve_first_existing_N _ _ _ _ habs, resolve_first_existing_N _ _ _ _ habs, hs]
    have : ((searchDirsS fs sub parent).map (· ++ partsOfStr (fileNameOf name))).find? fs.isFile =
           ((searchDirsS fs sub parent).map (· ++ partsOfStr (fileNameOf name))).find? fs'.isFile := by
      generalize searchDirsS fs sub parent = dsl at hown
      induction dsl with
      | nil => rfl
      | cons c cs ih =>
        simp only [List.map_cons, List.find?_cons, hown c (by simp)]
        rw [ih (fun q hq => hown q (by simp [hq]))]
    rw [this]

/-- results compared by a decidable test (for the concrete examples) -/
def sameRes : Except String Path → Except String Path → Bool
  | .ok p, .ok q => p == q
  | .error a, .error b => a == b
  | _, _ => false

theorem sameRes_eq {a b : Except String Path} (h : sameRes a b = true) : a = b := by
  cases a <;> cases b <;> simp_all [sameRes]

example : getPipelinePathN (exFsD true) ["pipelines"] "build.v2" (some ["p"]) = .ok ["w", "pipelines", "build.v2.yaml"] ∧
    getPipelinePathN (exFsD true) ["pipelines"] ".//build.v2" (some ["p"]) = .ok ["w", "pipelines", "build.v2.yaml"] ∧
    getPipelinePathN (exFsD true) ["pipelines"] "build" none = .ok ["w", "build.yaml"] ∧
    getPipelinePathN (exFsD true) ["pipelines"] "a/" none =
      .error "a/.yaml not found in any of the following:\n/w\n/w/pipelines\n/b" :=
  ⟨sameRes_eq (by decide +kernel), sameRes_eq (by decide +kernel), sameRes_eq (by decide +kernel),
   sameRes_eq (by decide +kernel)⟩

/-! ### file kinds at the search locations: only a regular file (symlinks followed) is a hit -/

theorem findPipelineK_eq (fs : Fs) (kind : Path → FKind) (file : List String) (dirs : List Path) :
    findPipelineK kind file dirs = findPipeline (fs.withKinds kind) file dirs := by
  induction dirs with
  | nil => rfl
  | cons d ds ih =>
    show (if (kind (d ++ file)).isFile then some (d ++ file) else findPipelineK kind file ds) =
      (if (kind (d ++ file)).isFile then some (d ++ file) else findPipeline (fs.withKinds kind) file ds)
    rw [ih]

/-- the kind-map look-up IS the existing look-up on the file system whose `isFile` is "the kind there is a
    regular file, links followed": every theorem about `getPipelinePathS` / `getPipelinePath` carries over. -/
theorem getPipelinePathK_eq_S (fs : Fs) (kind : Path → FKind) (sub : List String) (name : Name) (parent : Option Path) :
    getPipelinePathK fs kind sub name parent = getPipelinePathS (fs.withKinds kind) sub name parent := by
  cases name with
  | abs parts => rfl
  | rel parts =>
    simp only [getPipelinePathK, getPipelinePathS, findPipelineK_eq fs]
    rfl

theorem getPipelinePathK_default (fs : Fs) (kind : Path → FKind) (name : Name) (parent : Option Path) :
    getPipelinePathK fs kind ["pipelines"] name parent = getPipelinePath (fs.withKinds kind) name parent := by
  rw [getPipelinePathK_eq_S]; rfl

/-- **`resolveK_first_regular`** (every kind map, every sub-directory, every parent): a relative name resolves
    to `d/<name>.yaml` for the FIRST search location `d` whose entry is a regular file (links followed) - every
    location before it holds something that is not (nothing, a directory, a link to a directory, a dangling
    link, a fifo) and is passed over; when no location holds a regular file the result is the not-found error
    listing all the places searched. -/
theorem resolveK_first_regular (fs : Fs) (kind : Path → FKind) (sub parts : List String) (parent : Option Path) :
    (∃ pre d post, searchDirsS fs sub parent = pre ++ d :: post ∧
        (kind (d ++ fileParts parts)).isFile = true ∧
        (∀ e ∈ pre, (kind (e ++ fileParts parts)).isFile = false) ∧
        getPipelinePathK fs kind sub (.rel parts) parent = .ok (d ++ fileParts parts)) ∨
    ((∀ e ∈ searchDirsS fs sub parent, (kind (e ++ fileParts parts)).isFile = false) ∧
        getPipelinePathK fs kind sub (.rel parts) parent =
          .error (notFoundMsg ("/".intercalate (fileParts parts)) (searchDirsS fs sub parent))) := by
  simp only [getPipelinePathK]
  generalize searchDirsS fs sub parent = dirs
  suffices h : ∀ ds : List Path,
      (∃ pre d post, ds = pre ++ d :: post ∧ (kind (d ++ fileParts parts)).isFile = true ∧
          (∀ e ∈ pre, (kind (e ++ fileParts parts)).isFile = false) ∧
          findPipelineK kind (fileParts parts) ds = some (d ++ fileParts parts)) ∨
      ((∀ e ∈ ds, (kind (e ++ fileParts parts)).isFile = false) ∧ findPipelineK kind (fileParts parts) ds = none) by
    rcases h dirs with ⟨pre, d, post, h1, h2, h3, h4⟩ | ⟨h1, h2⟩
    · exact Or.inl ⟨pre, d, post, h1, h2, h3, by rw [h4]⟩
    · exact Or.inr ⟨h1, by rw [h2]⟩
  intro ds
  induction ds with
  | nil => exact Or.inr ⟨fun e h => absurd h (List.not_mem_nil), rfl⟩
  | cons a as ih =>
    by_cases ha : (kind (a ++ fileParts parts)).isFile = true
    · exact Or.inl ⟨[], a, as, rfl, ha, fun e h => absurd h (List.not_mem_nil), by simp [findPipelineK, ha]⟩
    · have ha' : (kind (a ++ fileParts parts)).isFile = false := by simpa using ha
      rcases ih with ⟨pre, d, post, h1, h2, h3, h4⟩ | ⟨h1, h2⟩
      · refine Or.inl ⟨a :: pre, d, post, by rw [h1]; rfl, h2, ?_, by simp [findPipelineK, ha', h4]⟩
        intro e he
        rcases List.mem_cons.mp he with rfl | h
        · exact ha'
        · exact h3 e h
      · refine Or.inr ⟨?_, by simp [findPipelineK, ha', h2]⟩
        intro e he
        rcases List.mem_cons.mp he with rfl | h
        · exact ha'
        · exact h1 e h

/-- what a non-file entry is makes no difference: two kind maps that agree on "is a regular file" everywhere
    resolve every name alike - a directory called `<name>.yaml`, a link to one, a dangling link or a fifo at a
    location is the same as nothing there. -/
theorem resolveK_only_isFile_matters (fs : Fs) (k k' : Path → FKind) (h : ∀ p, (k p).isFile = (k' p).isFile)
    (sub : List String) (name : Name) (parent : Option Path) :
    getPipelinePathK fs k sub name parent = getPipelinePathK fs k' sub name parent := by
  have : fs.withKinds k = fs.withKinds k' := by
    simp only [Fs.withKinds]; congr; funext p; exact h p
  rw [getPipelinePathK_eq_S, getPipelinePathK_eq_S, this]

/-- an absolute name over a kind map: found iff the entry at exactly that path is a regular file (links followed) -/
theorem resolveK_absolute (fs : Fs) (kind : Path → FKind) (sub parts : List String) (parent : Option Path) :
    getPipelinePathK fs kind sub (.abs parts) parent =
      if (kind (fileParts parts)).isFile = true then .ok (fileParts parts)
      else .error (pathStr (fileParts parts) ++ " does not exist.") := rfl

def exKinds : Path → FKind := fun p =>
  if p == ["p", "x.yaml"] then .dir else if p == ["w", "x.yaml"] then .linkDir
  else if p == ["w", "pipelines", "x.yaml"] then .linkFile else if p == ["b", "x.yaml"] then .file
  else if p == ["w", "g.yaml"] then .dangling else if p == ["w", "pipelines", "g.yaml"] then .dir
  else if p == ["b", "g.yaml"] then .fifo else .absent

/-- the hypotheses are satisfiable: a directory in the parent dir and a link to a directory in the cwd are passed
    over, the link to a file in cwd/pipelines is the hit (before the built-in file); with only non-files around
    the error lists the four places; an absolute name that is a directory does not exist. -/
example : getPipelinePathK exFs exKinds ["pipelines"] (.rel ["x"]) (some ["p"]) = .ok ["w", "pipelines", "x.yaml"] ∧
    getPipelinePathK exFs exKinds ["pipelines"] (.rel ["g"]) (some ["p"]) =
      .error "g.yaml not found in any of the following:\n/p\n/w\n/w/pipelines\n/b" ∧
    getPipelinePathK exFs exKinds ["pipelines"] (.abs ["p", "x"]) none = .error "/p/x.yaml does not exist." := by
  refine ⟨?_, ?_, ?_⟩ <;> rfl

/-- NOT pypyr: with `exists()` as the hit test the same look-up stops at the directory in the parent dir - the
    property's "first existing `<name>.yaml`" is about files, and the two tests differ exactly on these kinds. -/
theorem exists_test_differs_witness :
    findPipelineExists exKinds ["x.yaml"] (searchDirsS exFs ["pipelines"] (some ["p"])) = some ["p", "x.yaml"] ∧
    findPipelineK exKinds ["x.yaml"] (searchDirsS exFs ["pipelines"] (some ["p"])) = some ["w", "pipelines", "x.yaml"] := by
  constructor <;> rfl

end Pypyr.C19
