/-
  C19 — pipeline and custom-module resolution order.

  Theorems about `PypyrModel/Resolve.lean` (a transliteration of `pypyr/loaders/file.py`,
  `pype.get_arguments`, `add_sys_path`): for EVERY file system (existence predicate), every name,
  every parent. Helper lemmas: `Props/Lemmas/C19_Find.lean`.
-/
import Props.Lemmas.C19_Find
import Props.Lemmas.C19_Session

namespace Pypyr.C19
open Pypyr.Resolve

/-! example file system for the non-vacuity examples: cwd `/w`, built-ins `/b`;
    `x.yaml` exists in `/w/pipelines` and `/b`, `/p` is a directory, `/p/x.yaml` does not exist. -/
def exFs : Fs :=
  { cwd := ["w"], builtin := ["b"],
    isFile := fun p => p == ["w", "pipelines", "x.yaml"] || p == ["b", "x.yaml"] || p == ["p", "y.yaml"],
    dirExists := fun d => d == ["w"] || d == ["w", "pipelines"] || d == ["b"] || d == ["p"] }

/-- `resolve_first_existing` (spelled out): a relative name resolves to the first existing file
    among `parent/<name>.yaml` (only if a parent is given, exists and is not the cwd),
    `cwd/<name>.yaml`, `cwd/pipelines/<name>.yaml`, `{pypyr}/pipelines/<name>.yaml`; if none
    exists the result is the not-found error. For every existence predicate. -/
theorem resolve_first_existing (fs : Fs) (parts : List String) (parent : Option Path) :
    getPipelinePath fs (.rel parts) parent =
      match (candidates fs parent parts).find? fs.isFile with
      | some p => .ok p
      | none => .error (notFoundMsg ("/".intercalate (fileParts parts)) (searchDirs fs parent)) := by
  simp only [getPipelinePath, findPipeline_eq_find, candidates]
  cases List.find? fs.isFile (List.map (fun x => x ++ fileParts parts) (searchDirs fs parent)) <;> rfl

/-- the candidate list, written out -/
theorem candidates_spelled_out (fs : Fs) (parts : List String) (parent : Option Path) :
    candidates fs parent parts =
      (match parent with
       | some p => if fs.dirExists p = true ∧ p ≠ fs.cwd then [p ++ fileParts parts] else []
       | none => []) ++
      [fs.cwd ++ fileParts parts, fs.cwd ++ ["pipelines"] ++ fileParts parts,
       fs.builtin ++ fileParts parts] := by
  cases parent with
  | none => simp [candidates, searchDirs, cwdPipelines]
  | some p =>
    by_cases h1 : fs.dirExists p = true <;> by_cases h2 : p = fs.cwd <;>
      simp [candidates, searchDirs, cwdPipelines, h1, h2]

/-- `resolve_first_existing`, positional form: the result is a candidate that exists and every
    candidate before it does not. -/
theorem resolve_first_existing_pos (fs : Fs) (parts : List String) (parent : Option Path) (p : Path)
    (h : getPipelinePath fs (.rel parts) parent = .ok p) :
    fs.isFile p = true ∧ ∃ before after, candidates fs parent parts = before ++ p :: after ∧
      ∀ q ∈ before, fs.isFile q = false := by
  rw [resolve_first_existing] at h
  split at h
  · rename_i q hq
    cases h
    obtain ⟨hp, as, bs, heq, hb⟩ := List.find?_eq_some_iff_append.mp hq
    exact ⟨hp, as, bs, heq, fun q hq => by simpa using hb q hq⟩
  · cases h

/-- … and conversely: if any candidate exists, resolution succeeds. -/
theorem resolve_some_existing (fs : Fs) (parts : List String) (parent : Option Path) (q : Path)
    (hq : q ∈ candidates fs parent parts) (hf : fs.isFile q = true) :
    ∃ p, getPipelinePath fs (.rel parts) parent = .ok p := by
  rw [resolve_first_existing]
  cases hfind : (candidates fs parent parts).find? fs.isFile with
  | some p => exact ⟨p, rfl⟩
  | none => exact absurd hf (by simpa using List.find?_eq_none.mp hfind q hq)

example : getPipelinePath exFs (.rel ["x"]) (some ["p"]) = .ok ["w", "pipelines", "x.yaml"] ∧
    candidates exFs (some ["p"]) ["x"] =
      [["p", "x.yaml"], ["w", "x.yaml"], ["w", "pipelines", "x.yaml"], ["b", "x.yaml"]] := by
  constructor <;> rfl

/-- `resolve_absolute_only`: an absolute name is looked for at exactly that path — found iff it
    exists there; the parent, the cwd and every other file are irrelevant. -/
theorem resolve_absolute_only (fs : Fs) (parts : List String) (parent : Option Path) :
    getPipelinePath fs (.abs parts) parent =
      if fs.isFile (fileParts parts) = true then .ok (fileParts parts)
      else .error (pathStr (fileParts parts) ++ " does not exist.") := by
  simp [getPipelinePath]

theorem resolve_absolute_nowhere_else (fs fs' : Fs) (parts : List String) (parent parent' : Option Path)
    (h : fs.isFile (fileParts parts) = fs'.isFile (fileParts parts)) :
    getPipelinePath fs (.abs parts) parent = getPipelinePath fs' (.abs parts) parent' := by
  simp [getPipelinePath, h]

example : getPipelinePath exFs (.abs ["q", "x"]) (some ["p"]) = .error "/q/x.yaml does not exist." ∧
    getPipelinePath exFs (.abs ["p", "y"]) none = .ok ["p", "y.yaml"] := by
  constructor <;> rfl

/-- `not_found_lists_searched`: when no candidate exists the error text is the file name followed
    by the searched directories, one per line, in search order — and these are exactly the
    directories of the candidates. -/
theorem not_found_lists_searched (fs : Fs) (parts : List String) (parent : Option Path)
    (h : ∀ q ∈ candidates fs parent parts, fs.isFile q = false) :
    getPipelinePath fs (.rel parts) parent =
      .error ("/".intercalate (fileParts parts) ++ " not found in any of the following:\n" ++
              "\n".intercalate ((searchDirs fs parent).map pathStr)) ∧
    candidates fs parent parts = (searchDirs fs parent).map (· ++ fileParts parts) := by
  refine ⟨?_, rfl⟩
  rw [resolve_first_existing]
  have : (candidates fs parent parts).find? fs.isFile = none :=
    List.find?_eq_none.mpr (fun q hq => by simp [h q hq])
  rw [this]
  rfl

example : getPipelinePath exFs (.rel ["sub", "z"]) (some ["p"]) =
    .error "sub/z.yaml not found in any of the following:\n/p\n/w\n/w/pipelines\n/b" := by
  rfl

/-! ### what a pype child inherits -/

/-- `child_parent_default`, row 1: an explicit `parent` (even `None`) wins. -/
theorem child_parent_explicit (pype : PypeIn) (info : Info) (p : Option Path)
    (h : pype.parent = some p) : childParent pype info = p := by
  simp [childParent, h]

/-- rows 2/3: without an explicit `parent` the child gets the caller's parent iff
    resolveFromParent (default: the caller's `is_parent_cascading`) is truthy AND the child's loader
    equals the caller's loader; else no parent. -/
theorem child_parent_default (pype : PypeIn) (info : Info) (h : pype.parent = none) :
    childParent pype info =
      if ((match pype.resolveFromParent with | some v => v.truthy | none => info.isParentCascading) = true
          ∧ childLoader pype info = some info.loader)
      then info.parent else none := by
  simp only [childParent, h]
  by_cases h2 : childLoader pype info = some info.loader
  · cases pype.resolveFromParent with
    | none => cases info.isParentCascading <;> simp [h2]
    | some v => cases v.truthy <;> simp [h2]
  · cases pype.resolveFromParent with
    | none => cases info.isParentCascading <;> simp [h2]
    | some v => cases v.truthy <;> simp [h2]

/-- the loader a child uses when `pype.loader` is absent: the caller's, if that cascades. -/
theorem child_loader_default (pype : PypeIn) (info : Info) (h : pype.loader = none) :
    childLoader pype info = if info.isLoaderCascading then some info.loader else none := by
  simp [childLoader, h]

/-- `child_resolves_from_parent_first`: a pype child of a file-loaded pipeline, with no
    `loader`/`resolveFromParent`/`parent` keys, is looked for in the calling pipeline's directory
    first, then cwd, cwd/pipelines, built-ins. -/
theorem child_resolves_from_parent_first (fs : Fs) (callerPath : Path) (parts : List String)
    (pype : PypeIn) (h1 : pype.loader = none) (h2 : pype.resolveFromParent = none) (h3 : pype.parent = none) :
    childLoader pype (infoOf (.file callerPath)) = some fileLoader ∧
    childParent pype (infoOf (.file callerPath)) = some (dirOf callerPath) ∧
    getPipelinePath fs (.rel parts) (childParent pype (infoOf (.file callerPath))) =
      match (candidates fs (some (dirOf callerPath)) parts).find? fs.isFile with
      | some p => .ok p
      | none => .error (notFoundMsg ("/".intercalate (fileParts parts)) (searchDirs fs (some (dirOf callerPath)))) := by
  have hp : childParent pype (infoOf (.file callerPath)) = some (dirOf callerPath) := by
    simp [childParent, childLoader, infoOf, h1, h2, h3]
  refine ⟨by simp [childLoader, infoOf, h1], hp, ?_⟩
  rw [hp, resolve_first_existing]

/-- "unless told otherwise": with a falsy `resolveFromParent` (and no explicit parent) the child
    gets no parent and is looked for in cwd, cwd/pipelines, built-ins only. -/
theorem child_resolve_from_parent_off (fs : Fs) (info : Info) (parts : List String) (pype : PypeIn)
    (v : Val) (h2 : pype.resolveFromParent = some v) (hv : v.truthy = false) (h3 : pype.parent = none) :
    childParent pype info = none ∧
    candidates fs (childParent pype info) parts =
      [fs.cwd ++ fileParts parts, fs.cwd ++ ["pipelines"] ++ fileParts parts, fs.builtin ++ fileParts parts] := by
  have hp : childParent pype info = none := by simp [childParent, h2, hv, h3]
  exact ⟨hp, by rw [hp, candidates_spelled_out]; rfl⟩

/-- a child given another loader than its caller's gets no parent by default. -/
theorem child_other_loader_no_parent (pype : PypeIn) (info : Info) (l : Option String)
    (h1 : pype.loader = some l) (hl : l ≠ some info.loader) (h3 : pype.parent = none) :
    childParent pype info = none := by
  simp [childParent, childLoader, h1, h3, hl]

example : childParent { loader := none, resolveFromParent := none, parent := none }
      (infoOf (.file ["p", "y.yaml"])) = some ["p"] ∧
    childParent { loader := none, resolveFromParent := some (.bool false), parent := none }
      (infoOf (.file ["p", "y.yaml"])) = none ∧
    childParent { loader := some (some "other"), resolveFromParent := none, parent := none }
      (infoOf (.file ["p", "y.yaml"])) = none ∧
    childParent { loader := none, resolveFromParent := some (.bool false), parent := some (some ["q"]) }
      (infoOf (.file ["p", "y.yaml"])) = some ["q"] := by decide

/-! ### custom modules next to a loaded pipeline are importable -/

/-- `sys_path_has_pipeline_dir`: after `get_pipeline_definition` returned a pipeline file, that
    file's directory is on `sys.path` (whether it was parsed now or served from `file_cache`), and
    the invariant that makes this true is kept — so it holds after any sequence of loads. The
    invariant `Good` does not mention the file system: the file system may change in any way
    between loads (directories appearing after `add_sys_path` first saw them absent included —
    the rule repaired by /repo 0afb649: a directory absent at first sight is looked at again). -/
theorem sys_path_has_pipeline_dir (fs : Fs) (hfs : FsOk fs) (st : LoadState) (hg : Good st)
    (name : Name) (parent : Option Path) (p : Path)
    (h : (getPipelineDefinition fs st name parent).1 = .ok p) :
    dirOf p ∈ (getPipelineDefinition fs st name parent).2.sysPath ∧
    Good (getPipelineDefinition fs st name parent).2 := by
  unfold getPipelineDefinition at h ⊢
  cases hr : getPipelinePath fs name parent with
  | error e => simp [hr] at h
  | ok q =>
    simp only [hr] at h ⊢
    have hfile := getPipelinePath_isFile fs name parent q hr
    have hdir := hfs q hfile
    by_cases hc : q ∈ st.fileCache
    · simp only [hc, if_true] at h ⊢
      have e := Except.ok.inj h; subst e
      exact ⟨hg.cached q hc, hg⟩
    · simp only [hc, if_false] at h ⊢
      have e := Except.ok.inj h; subst e
      have hk : ∀ d ∈ ({ st with fileCache := q :: st.fileCache } : LoadState).known,
          d ∉ ({ st with fileCache := q :: st.fileCache } : LoadState).missing →
          d ∈ ({ st with fileCache := q :: st.fileCache } : LoadState).sysPath := hg.known
      refine ⟨addSysPath_mem fs _ _ hk hdir, ⟨?_, addSysPath_known fs _ _ hk⟩⟩
      intro x hx
      rw [addSysPath_fileCache] at hx
      rcases List.mem_cons.mp hx with e | hx
      · subst e; exact addSysPath_mem fs _ _ hk hdir
      · exact addSysPath_mono fs _ _ _ (hg.cached x hx)

/-- the empty start state satisfies the invariant -/
theorem good_init (sysPath : List Path) : Good { fileCache := [], sysPath := sysPath, known := [] } :=
  ⟨by simp, by simp⟩

example : (getPipelineDefinition exFs { fileCache := [], sysPath := [["site"]], known := [] }
    (.rel ["x"]) none).2.sysPath = [["site"], ["w", "pipelines"]] := by decide

/-! ### sequences of look-ups in one process: the warm cache never changes what a name resolves to -/

/-- `session_cold` — for EVERY sequence of look-ups (any names, any parents, any `Pipeline` objects,
    in any order), file-system changes, `clear_all()`s and `no_cache` toggles: a look-up made when
    every cache layer has been cleared since the file system last changed (or with caching off)
    resolves to exactly what the same look-up yields in a cold process — the first existing
    candidate in the documented order for ITS OWN (name, parent), or the not-found error. Earlier
    look-ups — for other names, from other parents, falling through to other places — cannot
    change it. -/
theorem session_cold (parse : String → Name) (ops : List SOp) :
    ∀ (fs : Fs) (nc dirty : Bool) (s : Sess), (dirty = false → SCoh parse fs s) →
    ∀ x ∈ runSess parse fs nc dirty s ops, x.2.1 = true → x.1 = x.2.2 := by
  induction ops with
  | nil => intro fs nc dirty s _ x hx; simp [runSess] at hx
  | cons op ops ih =>
    intro fs nc dirty s hc x hx hclean
    cases op with
    | req r =>
      simp only [runSess, List.mem_cons] at hx
      rcases hx with rfl | hx
      · simp only [Bool.or_eq_true, Bool.not_eq_true'] at hclean
        cases nc with
        | true => exact (request_noCache parse fs s r).1
        | false =>
          have hd : dirty = false := by simpa using hclean
          exact (request_cold parse fs false s r (hc hd)).1
      · refine ih fs nc dirty _ ?_ x hx hclean
        intro hd
        exact (request_cold parse fs nc s r (hc hd)).2
    | fs fs' =>
      simp only [runSess] at hx
      exact ih fs' nc true s (by simp) x hx hclean
    | clear =>
      simp only [runSess] at hx
      exact ih fs nc false _ (fun _ => scoh_clear parse fs s) x hx hclean
    | noCache b =>
      simp only [runSess] at hx
      exact ih fs b dirty s hc x hx hclean
    | pyDir d =>
      simp only [runSess] at hx
      exact ih fs nc dirty (s.pyDir fs d) (fun hd a b c h => hc hd a b c h) x hx hclean

/-- `warm_equals_cold` — in an unchanging file system EVERY look-up of EVERY sequence, from a
    cold start, resolves as in a cold process. -/
theorem warm_equals_cold (parse : String → Name) (fs : Fs) (sp : List Path) (ops : List SOp)
    (hno : ∀ fs', SOp.fs fs' ∉ ops) (nc : Bool) :
    ∀ x ∈ runSess parse fs nc false (Sess.init sp) ops, x.1 = x.2.2 := by
  have key : ∀ (ops : List SOp) (nc : Bool) (s : Sess), (∀ fs', SOp.fs fs' ∉ ops) → SCoh parse fs s →
      ∀ x ∈ runSess parse fs nc false s ops, x.1 = x.2.2 := by
    intro ops
    induction ops with
    | nil => intro nc s _ _ x hx; simp [runSess] at hx
    | cons op ops ih =>
      intro nc s hno hc x hx
      have hno' : ∀ fs', SOp.fs fs' ∉ ops := fun fs' h => hno fs' (List.mem_cons_of_mem _ h)
      cases op with
      | req r =>
        simp only [runSess, List.mem_cons] at hx
        rcases hx with rfl | hx
        · exact (request_cold parse fs nc s r hc).1
        · exact ih nc _ hno' (request_cold parse fs nc s r hc).2 x hx
      | fs fs' => exact absurd List.mem_cons_self (hno fs')
      | clear => simp only [runSess] at hx; exact ih nc _ hno' (scoh_clear parse fs s) x hx
      | noCache b => simp only [runSess] at hx; exact ih b s hno' hc x hx
      | pyDir d => simp only [runSess] at hx; exact ih nc (s.pyDir fs d) hno' (fun a b c h => hc a b c h) x hx
  exact key ops nc _ hno (scoh_init parse fs sp)

/-- `request_ignores_object` — which `Pipeline` object issues the look-up (and whatever it ran
    before, with whatever parent) plays no part in it. -/
theorem request_ignores_object (parse : String → Name) (fs : Fs) (nc : Bool) (s : Sess) (r : Req) (o : Nat) :
    request parse fs nc s { r with obj := o } = request parse fs nc s r := rfl

def exParse : String → Name
  | "x" => .rel ["x"]
  | "sub/c" => .rel ["sub", "c"]
  | "c" => .rel ["c"]
  | "/p/x" => .abs ["p", "x"]
  | _ => .rel ["none"]

/-- cwd `/w` holds `x.yaml`, `c.yaml` and `sub/c.yaml`; `/p` and `/p/sub` are empty directories -/
def exFs2 : Fs :=
  { cwd := ["w"], builtin := ["b"],
    isFile := fun p => p == ["w", "x.yaml"] || p == ["w", "c.yaml"] || p == ["w", "sub", "c.yaml"],
    dirExists := fun d => d == ["w"] || d == ["w", "sub"] || d == ["b"] || d == ["p"] || d == ["p", "sub"] }

/-- relative `x` from `/p` falls through to the cwd; afterwards the ABSOLUTE `/p/x` is still not
    found; `sub/c` from `/p` and `c` from `/p/sub` fall through to different cwd files. -/
example : (runSess exParse exFs2 false false (Sess.init [])
      [.req ⟨0, "x", some ["p"]⟩, .req ⟨1, "/p/x", some ["p"]⟩,
       .req ⟨2, "sub/c", some ["p"]⟩, .req ⟨3, "c", some ["p", "sub"]⟩, .req ⟨0, "x", none⟩]).map (·.1) =
    [.ok ["w", "x.yaml"], .error "/p/x.yaml does not exist.", .ok ["w", "sub", "c.yaml"], .ok ["w", "c.yaml"],
     .ok ["w", "x.yaml"]] := by
  rfl

/-- `joined_key_collides` — NOT pypyr: keyed on `os.path.join(str(parent), name)` (the first
    candidate only) these requests would share a cache entry although they resolve differently;
    the key `(str(parent), name)` of the model keeps them apart. -/
theorem joined_key_collides :
    joinedKey exParse ⟨0, "x", some ["p"]⟩ = joinedKey exParse ⟨1, "/p/x", none⟩ ∧
    getPipelinePath exFs2 (exParse "x") (some ["p"]) = .ok ["w", "x.yaml"] ∧
    getPipelinePath exFs2 (exParse "/p/x") none = .error "/p/x.yaml does not exist." ∧
    joinedKey exParse ⟨2, "sub/c", some ["p"]⟩ = joinedKey exParse ⟨3, "c", some ["p", "sub"]⟩ ∧
    getPipelinePath exFs2 (exParse "sub/c") (some ["p"]) = .ok ["w", "sub", "c.yaml"] ∧
    getPipelinePath exFs2 (exParse "c") (some ["p", "sub"]) = .ok ["w", "c.yaml"] := by
  refine ⟨rfl, rfl, rfl, rfl, rfl, rfl⟩

/-- `request_sys_path` — also when a pipeline is served from the warm cache its directory is on
    `sys.path`; the invariant (which does not mention the file system) survives the look-up. -/
theorem request_sys_path (parse : String → Name) (fs : Fs) (hfs : FsOk fs) (nc : Bool) (s : Sess) (r : Req)
    (hg : SGood s) :
    SGood (request parse fs nc s r).2 ∧
    ∀ p, (request parse fs nc s r).1 = .ok p → dirOf p ∈ (request parse fs nc s r).2.load.sysPath := by
  cases nc with
  | true =>
    unfold request
    simp only [if_true]
    cases hp : getPipelinePath fs (parse r.nameStr) r.parent with
    | error e => exact ⟨hg, fun p h => by cases h⟩
    | ok q =>
      simp only
      have hdir := hfs q (getPipelinePath_isFile fs _ _ q hp)
      refine ⟨⟨⟨?_, addSysPath_known fs _ _ hg.load.known⟩, ?_⟩, ?_⟩
      · intro x hx
        rw [addSysPath_fileCache] at hx
        exact addSysPath_mono fs _ _ _ (hg.load.cached x hx)
      · intro k p hm
        exact addSysPath_mono fs _ _ _ (hg.served k p hm)
      · intro p h
        cases h
        exact addSysPath_mem fs _ _ hg.load.known hdir
  | false =>
    unfold request
    simp only [Bool.false_eq_true, if_false]
    cases hl : s.lookup (r.parent, r.nameStr) with
    | some q =>
      simp only
      exact ⟨hg, fun p h => by cases h; exact hg.served _ _ (lookup_mem hl)⟩
    | none =>
      simp only
      have hsp := sys_path_has_pipeline_dir fs hfs s.load hg.load (parse r.nameStr) r.parent
      have hmono : ∀ x ∈ s.load.sysPath, x ∈ (getPipelineDefinition fs s.load (parse r.nameStr) r.parent).2.sysPath := by
        intro x hx
        unfold getPipelineDefinition
        cases getPipelinePath fs (parse r.nameStr) r.parent with
        | error e => exact hx
        | ok q =>
          simp only
          split
          · exact hx
          · exact addSysPath_mono fs _ _ _ hx
      cases hd : getPipelineDefinition fs s.load (parse r.nameStr) r.parent with
      | mk res ld =>
        rw [hd] at hsp hmono
        simp only at hsp hmono
        cases res with
        | error e =>
          simp only
          refine ⟨⟨?_, fun k p hm => hmono _ (hg.served k p hm)⟩, fun p h => by cases h⟩
          have hg' : Good (getPipelineDefinition fs s.load (parse r.nameStr) r.parent).2 := by
            unfold getPipelineDefinition
            have hfst := getPipelineDefinition_fst fs s.load (parse r.nameStr) r.parent
            rw [hd] at hfst
            simp only at hfst
            rw [← hfst]
            exact hg.load
          rw [hd] at hg'
          exact hg'
        | ok q =>
          simp only
          have := hsp q rfl
          refine ⟨⟨this.2, ?_⟩, fun p h => by cases h; exact this.1⟩
          intro k p hm
          simp only [List.mem_cons, Prod.mk.injEq] at hm
          rcases hm with ⟨_, rfl⟩ | hm
          · exact this.1
          · exact hmono _ (hg.served k p hm)

/-- `session_sys_path` — for EVERY session (look-ups, clears, `no_cache` toggles and ANY changes of the
    file system in between: files and directories appearing or disappearing, in particular a
    directory that `add_sys_path` saw absent earlier), whenever a look-up yields a pipeline file, that
    file's directory is on `sys.path` right then: custom step modules next to it are importable. -/
theorem session_sys_path (parse : String → Name) (ops : List SOp) :
    ∀ (fs : Fs) (nc : Bool) (s : Sess), FsOk fs → (∀ fs', SOp.fs fs' ∈ ops → FsOk fs') → SGood s →
    ∀ x ∈ runSessPath parse fs nc s ops, ∀ p, x.1 = .ok p → dirOf p ∈ x.2 := by
  induction ops with
  | nil => intro fs nc s _ _ _ x hx; simp [runSessPath] at hx
  | cons op ops ih =>
    intro fs nc s hfs hall hg x hx p hp
    have hall' : ∀ fs', SOp.fs fs' ∈ ops → FsOk fs' := fun fs' h => hall fs' (List.mem_cons_of_mem _ h)
    cases op with
    | req r =>
      have hr := request_sys_path parse fs hfs nc s r hg
      simp only [runSessPath, List.mem_cons] at hx
      rcases hx with rfl | hx
      · exact hr.2 p hp
      · exact ih fs nc _ hfs hall' hr.1 x hx p hp
    | fs fs' =>
      simp only [runSessPath] at hx
      exact ih fs' nc s (hall fs' List.mem_cons_self) hall' hg x hx p hp
    | clear =>
      simp only [runSessPath] at hx
      exact ih fs nc _ hfs hall' (sgood_clear s hg) x hx p hp
    | noCache b =>
      simp only [runSessPath] at hx
      exact ih fs b s hfs hall' hg x hx p hp
    | pyDir d =>
      simp only [runSessPath] at hx
      exact ih fs nc _ hfs hall' (sgood_pyDir fs s d hg) x hx p hp

/-- the repaired rule at work: `/late` is handed to `add_sys_path` while absent (remembered as
    missing), appears, and is then put on `sys.path` by the load of `/late/x.yaml`. -/
example :
    let fsA : Fs := { cwd := ["w"], builtin := ["b"], isFile := fun _ => false, dirExists := fun d => d == ["w"] }
    let fsB : Fs := { fsA with isFile := fun p => p == ["late", "x.yaml"], dirExists := fun d => d == ["w"] || d == ["late"] }
    let st1 := addSysPath fsA { fileCache := [], sysPath := [], known := [] } ["late"]
    st1.sysPath = [] ∧ st1.missing = [["late"]] ∧
    (getPipelineDefinition fsB st1 (.abs ["late", "x"]) none).2.sysPath = [["late"]] := by
  decide

end Pypyr.C19
