/-
  C11, object level — "When a step pypes a child pipeline with its own context the parent context is
  unaffected by anything the child does except for the keys named in out".

  The flow-level theorems (`Props/C11.lean`) are about VALUES: a context is a tree, the child's context
  is built from the values of `args`, `out` copies values back.  Python contexts hold OBJECTS, and what
  `pypyr.steps.pype` hands to the child is what `context.get_formatted('pype')` returns for `args`:

    * a literal container in `args`, or `'{key}'` as a single expression: the formatter REBUILDS every
      list / tuple / set / dict (`obj.__class__(…)`, sharing kept) – new objects;
    * `'{key:ff}'` (flat): THE PARENT'S OWN OBJECT;
    * any object that is not one of those containers (bytearray, an instance of a user class): handed
      back as it is by every form of formatting – the parent's own object again.

  Heap model `PypyrModel/Heap.lean`: parent = run `p`, child = run `c` (its own region); the child's
  context is built by `Op.start` (literal skeleton of `args`) and `Op.fmtFrom p … byRef` (values read
  from the parent's context; `byRef = true` for `:ff`), the child then runs any operations, and `out`
  is `Op.fmtFrom c [ck] [] pk false` executed by the parent (`Context.get_formatted(ck)` on the CHILD's
  context, stored under `parent[pk]`).

  `pype_child_region_disjoint`: if no argument is taken by `:ff` reference and the parent's context
  holds no opaque mutable object (`Op.safeFrom p`, `NoObj`), then whatever the child does – any
  operations, any number, also operations that raise – every object of the parent (of every region but
  the child's own) stays exactly what it was, and after `out` (the child's context holding no opaque
  object either) the parent still reaches nothing but its own region, its old objects are unchanged
  and so is every key of its context not named in `out`.  `pype_ff_counterexample` / `pype_obj_…`:
  with `'{lst:ff}'`, or a bytearray, the child's in-place change shows in the parent without `out`.
-/
import Props.Lemmas.C12_Pype

namespace Pypyr.C11Heap
open Pypyr.RunHeap Pypyr.C12

/-- `write_child_context_to_parent`: `parent[pk] = child_context.get_formatted(ck)` for every pair. -/
def outOps (c : Nat) (outs : List (String × String)) : List Op :=
  outs.map fun o => .fmtFrom c [.key o.2] [] o.1 false

/-- One `pypyr.steps.pype` with a context of its own: the child (run `c`) builds its context from the
    formatted `args` and runs, then the parent (run `p`) fetches the `out` keys. -/
def pypeSched (p c : Nat) (childOps : List Op) (outs : List (String × String)) : Sched :=
  solo c childOps ++ solo p (outOps c outs)

/-- While the child runs – for EVERY list of operations, hence after every prefix of it, hence after
    every single operation of the child: every region but the child's own is exactly what it was (the
    parent's objects, the definitions, the configuration, every other run), no other run's outcome
    changes, and the child reaches its own region only. -/
theorem pype_child_cannot_touch_parent {p c : Nat} (hpc : p ≠ c) {childOps : List Op}
    (hchild : ∀ o ∈ childOps, Op.safeFrom p o = true) {st : State} (hS : Sep st.heap) (hno : NoObj st.heap p) :
    Sep (exec (solo c childOps) st).heap ∧
    (∀ g, g ≠ .run c → (exec (solo c childOps) st).heap.arena g = st.heap.arena g) ∧
    (∀ r, r ≠ c → (exec (solo c childOps) st).dead r = st.dead r) :=
  exec_solo_from hpc hchild hS hno

theorem outOps_safe (c : Nat) (outs : List (String × String)) : ∀ o ∈ outOps c outs, Op.safeFrom c o = true := by
  intro o ho
  obtain ⟨kv, _, rfl⟩ := List.mem_map.1 ho
  simp [Op.safeFrom]

theorem outOps_frame {ks : List String} (p c : Nat) (outs : List (String × String)) (hk : ∀ o ∈ outs, o.1 ∈ ks)
    (st : State) : FrameExcept ks p st.heap (exec (solo p (outOps c outs)) st).heap := by
  induction outs generalizing st with
  | nil => exact FrameExcept.refl _ _ _
  | cons o rest ih =>
    exact (outOp_frame (hk o List.mem_cons_self) st).trans
      (ih (fun o' ho' => hk o' (List.mem_cons_of_mem _ ho')) _)

/-- `pype_child_region_disjoint`, the whole step.  `mid`: the child is done, `fin`: `out` is written. -/
theorem pype_child_region_disjoint {p c : Nat} (hpc : p ≠ c) {childOps : List Op}
    (hchild : ∀ o ∈ childOps, Op.safeFrom p o = true) (outs : List (String × String))
    {st : State} (hS : Sep st.heap) (hnoP : NoObj st.heap p)
    (hnoC : NoObj (exec (solo c childOps) st).heap c) :
    -- the child: nothing outside its own region changes, nobody else's outcome changes
    (∀ g, g ≠ .run c → (exec (solo c childOps) st).heap.arena g = st.heap.arena g) ∧
    (∀ r, r ≠ c → (exec (solo c childOps) st).dead r = st.dead r) ∧
    -- after out: every object references its own region only (the parent reaches the parent's region),
    Sep (exec (pypeSched p c childOps outs) st).heap ∧
    -- out itself changes the parent's region only,
    (∀ g, g ≠ .run p → (exec (pypeSched p c childOps outs) st).heap.arena g = (exec (solo c childOps) st).heap.arena g) ∧
    -- and there: the parent's old objects are what they were before the step, the context object
    -- differs at most at the keys named in out
    FrameExcept (outs.map (·.1)) p st.heap (exec (pypeSched p c childOps outs) st).heap := by
  obtain ⟨hS1, hA1, hD1⟩ := pype_child_cannot_touch_parent hpc hchild hS hnoP
  obtain ⟨hS2, hA2, _⟩ := exec_solo_from (Ne.symm hpc) (outOps_safe c outs) hS1 hnoC
  have hp : Region.run p ≠ Region.run c := by intro e; cases e; exact hpc rfl
  refine ⟨hA1, hD1, ?_, ?_, ?_⟩
  · rw [pypeSched, exec_append]; exact hS2
  · rw [pypeSched, exec_append]; exact hA2
  · rw [pypeSched, exec_append]
    have hfr := outOps_frame (ks := outs.map (·.1)) p c outs
      (fun o ho => List.mem_map.2 ⟨o, ho, rfl⟩) (exec (solo c childOps) st)
    have hsame : (exec (solo c childOps) st).heap.arena (.run p) = st.heap.arena (.run p) := hA1 _ hp
    refine ⟨?_, ?_, ?_⟩
    · intro i h0 hi; rw [hfr.1 i h0 (by rw [hsame]; exact hi), hsame]
    · rw [← hsame]; exact hfr.2.1
    · intro k hk
      rw [hfr.2.2 k hk]
      simp only [rootGet, Heap.get?, root, hsame]

/-- …so whatever the parent could reach before the step it reaches afterwards, unchanged, and only
    objects of its own region: `resolve` from the parent's context never leaves the parent's region. -/
theorem pype_parent_reaches_own {p c : Nat} (hpc : p ≠ c) {childOps : List Op}
    (hchild : ∀ o ∈ childOps, Op.safeFrom p o = true) (outs : List (String × String))
    {st : State} (hS : Sep st.heap) (hnoP : NoObj st.heap p)
    (hnoC : NoObj (exec (solo c childOps) st).heap c) {path : Path} {x : Ref}
    (hx : resolve (exec (pypeSched p c childOps outs) st).heap (root p) path = some x) : x.reg = .run p :=
  resolve_reg (pype_child_region_disjoint hpc hchild outs hS hnoP hnoC).2.2.1 hx

/-! ### examples and counter-examples

  Parent (run 1): `{lst: [1], n: 7}`; the child (run 2) gets `args: {x: <expr>}`, appends 99 to `x` in
  place (`py: x.append(99)`) and ends; `out` as stated. -/

def exParent : List Op := [.start [.dict [("lst", 1), ("n", 3)], .list [2], .leaf (.int 1), .leaf (.int 7)]]
def exSt : State := exec (solo 1 exParent) (State.loaded [] [.dict []])

theorem exSt_sep : Sep exSt.heap :=
  exec_sep (s := solo 1 exParent) (by decide) (init_sep [] [.dict []] (by decide) (by decide))

/-- the child's operations for `args: {x: '{lst}'}` (`byRef = false`) or `args: {x: '{lst:ff}'}`
    (`byRef = true`), then `x.append(99)` and a new key `made: [x…]` -/
def exChild (byRef : Bool) : List Op :=
  [.start [.dict []], .fmtFrom 1 [.key "lst"] [] "x" byRef, .appendAt [.key "x"] [.leaf (.int 99)],
   .setKey "made" [.list [1], .leaf (.str "m")]]

example : ∀ o ∈ exChild false, Op.safeFrom 1 o = true := by decide

/-- `args: {x: '{lst}'}`, `out: [made]`: the hypotheses hold, the theorem applies; concretely the parent
    keeps `lst == [1]` and gets `made`, and reaches nothing outside its own region. -/
example :
    let fin := (exec (pypeSched 1 2 (exChild false) [("made", "made")]) exSt).heap
    FrameExcept ["made"] 1 exSt.heap fin ∧ Sep fin :=
  let t := pype_child_region_disjoint (p := 1) (c := 2) (by decide) (childOps := exChild false) (by decide)
    [("made", "made")] exSt_sep (by decide) (by decide +kernel)
  ⟨t.2.2.2.2, t.2.2.1⟩

example :
    let fin := (exec (pypeSched 1 2 (exChild false) [("made", "made")]) exSt).heap
    deepVal 5 fin (root 1) = .dict [(.str "lst", .list [.int 1]), (.str "n", .int 7), (.str "made", .list [.str "m"])] ∧
    deepVal 5 fin (root 2) = .dict [(.str "x", .list [.int 1, .int 99]), (.str "made", .list [.str "m"])] ∧
    foreignReach 50 fin 1 = [] ∧ foreignReach 50 fin 2 = [] := by
  decide +kernel

/-- `pype_ff_counterexample`: `args: {x: '{lst:ff}'}` – the child's `x` IS the parent's list: the child
    reaches an object of the parent, its append shows in the parent (`lst == [1, 99]`) although there
    is no `out` at all, and the parent's region has changed while the child ran.  `'{n:ff}'` of an atom
    is harmless.  -/
theorem pype_ff_counterexample :
    let fin := (exec (pypeSched 1 2 (exChild true) []) exSt).heap
    Op.safeFrom 1 (.fmtFrom 1 [.key "lst"] [] "x" true) = false ∧
    foreignReach 50 fin 2 = [⟨.run 1, 1⟩] ∧
    deepVal 5 exSt.heap (root 1) = .dict [(.str "lst", .list [.int 1]), (.str "n", .int 7)] ∧
    deepVal 5 fin (root 1) = .dict [(.str "lst", .list [.int 1, .int 99]), (.str "n", .int 7)] ∧
    fin.arena (.run 1) ≠ exSt.heap.arena (.run 1) ∧
    -- the same child with '{lst}': the parent is untouched
    (exec (pypeSched 1 2 (exChild false) []) exSt).heap.arena (.run 1) = exSt.heap.arena (.run 1) ∧
    -- '{n:ff}' of an atom: nothing of the parent is reachable from the child
    foreignReach 50 (exec (solo 2 [.start [.dict []], .fmtFrom 1 [.key "n"] [] "x" true]) exSt).heap 2 = [] := by
  decide +kernel

/-- Parent (run 1): `{buf: bytearray(b'ab'), box: [buf]}` – the bytearray directly and inside a list. -/
def exObjParent : List Op :=
  [.start [.dict [("buf", 1), ("box", 3)], .obj "bytearray" [("data", 2)], .leaf (.bytes "6162"), .list [1]]]
def exObjSt : State := exec (solo 1 exObjParent) (State.loaded [] [.dict []])

/-- `args: {x: '{box}'}` (a single expression, no `:ff`): the list is rebuilt, the bytearray inside it is
    not; `x[0].extend(b'!')` in the child. -/
def exObjChild : List Op :=
  [.start [.dict []], .fmtFrom 1 [.key "box"] [] "x" false, .attrSetAt [.key "x", .idx 0] "data" [.leaf (.bytes "616221")]]

/-- `pype_obj_counterexample`: a mutable object that is not a container is shared by reference by EVERY
    form of formatting: the hypothesis `NoObj` fails, the child reaches the parent's bytearray and
    changes it (`buf == bytearray(b'ab!')` in the parent, no `out`); and the other way round: `out` of a
    child value holding such an object leaves the parent holding an object of the child's. -/
theorem pype_obj_counterexample :
    let fin := (exec (pypeSched 1 2 exObjChild []) exObjSt).heap
    ¬ NoObj exObjSt.heap 1 ∧
    (∀ o ∈ exObjChild, Op.safeFrom 1 o = true) ∧
    foreignReach 50 fin 2 = [⟨.run 1, 1⟩] ∧
    deepVal 5 exObjSt.heap ⟨.run 1, 1⟩ = .dict [(.str "__obj__", .str "bytearray"), (.str "data", .bytes "6162")] ∧
    deepVal 5 fin ⟨.run 1, 1⟩ = .dict [(.str "__obj__", .str "bytearray"), (.str "data", .bytes "616221")] ∧
    -- out of a child value that holds an opaque object: the parent reaches the child's region
    foreignReach 50 (exec (pypeSched 1 2 [.start [.dict [("o", 1)], .list [2], .obj "bytearray" [("data", 3)], .leaf (.bytes "00")]]
      [("got", "o")]) exSt).heap 1 = [⟨.run 2, 2⟩] := by
  refine ⟨by decide +kernel, by decide, ?_⟩
  decide +kernel

end Pypyr.C11Heap
