/-
  C11 — pype: isolation, `out`, error / Stop propagation, stack balance.

  Model: `PypyrModel/Flow/Runner.lean` (`getPypeArgs` = `pype.get_arguments`, `writeOut` =
  `pype.write_child_context_to_parent`, `pypeBody` = `pype.run_step`, `runPipeline` =
  `Pipeline.load_and_run_pipeline` + `_run_pipeline`). The state `St` carries the context *object*
  (`ctx` = its data, `stack` = its pipeline stack, innermost first; `stack.head?` is
  `context.current_pipeline`) and the globals of the run (probe trace, sleeps, exception counter, …).

  `pype_step_decomposition` cuts `run_step` into `get_arguments`, the child run, and what is done with
  the child's outcome: `pypeWith a child = errTail a.raiseError ∘ (pypeShared | pypeOwn) a child`
  (Props/Lemmas/C11_Pype.lean). The isolation / sharing / result theorems are then proved for an
  **arbitrary** child body `child : St → St × Res` — any function whatsoever on its own state, not
  only `runPipeline` — and so hold for every program, every child pipeline, every fuel, every child
  behaviour (clobbering or clearing every key, failing, stopping, pyping grandchildren …).
  The stack theorems are instances of the global fuel induction of Props/Lemmas/FlowGlobalRun.lean.

  Not covered here: the heap-level statement `pype_child_region_disjoint` of DESIGN.md (the child
  context shares no mutable cell with the parent) — values of this model are immutable trees, so it
  cannot be expressed over it.

  Helper lemmas: Props/Lemmas/C11_Args.lean, C11_Out.lean, C11_Pype.lean.
-/
import Props.Lemmas.C11_Pype

namespace Pypyr.C11
open Pypyr Pypyr.Flow

/-! ## `get_arguments`: defaults and exclusivity -/

/-- a non-empty string was given as `pipeArg` -/
def pipeArgGiven (kvs : Dict) : Prop := ∃ t, t ≠ "" ∧ dictGet? kvs (.str "pipeArg") = some (.str t)

/-- a successful `get_arguments` read a formatted mapping: `pype` is in the context with a value, it
    formats to a mapping `kvs`, and that mapping has a string `name`. (`pype_args_table` is about `kvs`.) -/
theorem pype_args_from_formatted_mapping (s : St) (a : PypeArgs) (h : getPypeArgs s = .ok a) :
    ∃ raw kvs, assertKeyHasValue s "pype" "pypyr.steps.pype" = .ok raw ∧ fmtAtKey s raw = .ok (.dict kvs) ∧
      dictGet? kvs (.str "name") = some (.str a.name) := by
  obtain ⟨raw, kvs, h1, h2, h3⟩ := getPypeArgs_ok s a h
  exact ⟨raw, kvs, h1, h2, (pypeArgsOfDict_ok kvs a h3).1⟩

/-- **The table of `get_arguments`**, for every context whose `pype` formats to the mapping `kvs`.
    Whenever arguments `a` come out:
    * `useParentContext` — an explicit value wins (its truthiness); absent, it is **false iff** a
      non-empty `args` mapping or a non-empty `pipeArg` string was given, else true;
    * `skipParse` — an explicit value wins; absent, it is false iff `pipeArg` was given, else true;
      `pipeArg` is passed on iff it was a non-empty string;
    * `out` is the given value when truthy, and then `useParent` is false (exclusivity);
    * `raiseError` — absent ⇒ true, otherwise the truthiness of the value;
    * `groups` — a string becomes the one-element list, a list of strings stays, absent stays absent.
    And the other direction of the exclusivity: a truthy `out` together with a `useParentContext` that
    is truthy — or absent with neither `args` nor `pipeArg` given — is a `ContextError`. -/
theorem pype_args_table (s : St) (raw : Val) (kvs : Dict)
    (hraw : assertKeyHasValue s "pype" "pypyr.steps.pype" = .ok raw)
    (hfmt : fmtAtKey s raw = .ok (.dict kvs)) :
    (∀ a, getPypeArgs s = .ok a →
      (∀ v, dictGet? kvs (.str "useParentContext") = some v → a.useParent = v.truthy) ∧
      (dictGet? kvs (.str "useParentContext") = none →
          (a.useParent = false ↔ (argsGiven a.args = true ∨ pipeArgGiven kvs))) ∧
      (∀ v, dictGet? kvs (.str "skipParse") = some v → a.skipParse = v.truthy) ∧
      (dictGet? kvs (.str "skipParse") = none → (a.skipParse = false ↔ pipeArgGiven kvs)) ∧
      (a.pipeArg.isSome = true ↔ pipeArgGiven kvs) ∧
      (a.out = match dictGet? kvs (.str "out") with
               | some v => if v.truthy then some v else none
               | none => none) ∧
      (a.out.isSome = true → a.useParent = false) ∧
      (dictGet? kvs (.str "raiseError") = none → a.raiseError = true) ∧
      (∀ v, dictGet? kvs (.str "raiseError") = some v → a.raiseError = v.truthy) ∧
      (∀ g, dictGet? kvs (.str "groups") = some (.str g) → a.groups = some [g]) ∧
      (∀ gs, dictGet? kvs (.str "groups") = some (.list (gs.map Val.str)) → a.groups = some gs) ∧
      (dictGet? kvs (.str "groups") = none → a.groups = none)) ∧
    (∀ name args o, dictGet? kvs (.str "name") = some (.str name) → argsOf kvs = .ok args →
      dictGet? kvs (.str "out") = some o → o.truthy = true →
      ((∃ v, dictGet? kvs (.str "useParentContext") = some v ∧ v.truthy = true) ∨
       (dictGet? kvs (.str "useParentContext") = none ∧ argsGiven args = false ∧ ¬ pipeArgGiven kvs)) →
      getPypeArgs s = .error ("pypyr.errors.ContextError",
        "~pypyr.steps.pype pype.out is only relevant if useParentContext = False.")) := by
  have hpa : ((pipeArgStrOf kvs).isSome = true ↔ pipeArgGiven kvs) := pipeArgStrOf_isSome kvs
  have hget : getPypeArgs s = pypeArgsOfDict kvs := by rw [getPypeArgs_eq, hraw]; simp only [hfmt]
  constructor
  · intro a ha
    rw [hget] at ha
    obtain ⟨_, _, hout, hup, hpipe, hskip, hre, hgr, _, _, hexcl⟩ := pypeArgsOfDict_ok kvs a ha
    refine ⟨?_, ?_, ?_, ?_, ?_, ?_, ?_, ?_, ?_, ?_, ?_, ?_⟩
    · intro v hv; rw [hup, useParentOf_explicit kvs _ v hv]
    · intro hnone
      rw [hup, useParentOf_default kvs _ hnone, ← hpa]
      cases argsGiven a.args <;> cases (pipeArgStrOf kvs).isSome <;> simp
    · intro v hv; rw [hskip, skipParseOf_explicit kvs v hv]
    · intro hnone
      rw [hskip, skipParseOf_default kvs hnone, ← hpa]
      cases (pipeArgStrOf kvs).isSome <;> simp
    · rw [hpipe, pipeArgOf_isSome]; exact hpa
    · rw [hout]; exact outOf_eq kvs
    · intro ho
      rw [hout] at ho
      rw [ho, Bool.true_and] at hexcl
      rw [hup]; exact hexcl
    · intro h; rw [hre]; exact raiseErrorOf_default kvs h
    · intro v h; rw [hre]; exact raiseErrorOf_explicit kvs v h
    · intro g h
      have := groupsOf_str kvs g h; rw [hgr] at this; injection this with this; injection this
    · intro gs h
      have := groupsOf_list kvs _ gs h (strList?_strs gs); rw [hgr] at this
      injection this with this; injection this
    · intro h
      have := groupsOf_none kvs h; rw [hgr] at this; injection this with this; injection this
  · intro name args o hn ha ho hot hup
    rw [hget]
    apply pypeArgsOfDict_out_with_parent kvs name args hn ha
    · rw [outOf_eq, ho]; simp [hot]
    · rcases hup with ⟨v, hv, hvt⟩ | ⟨hnone, hag, hnp⟩
      · rw [useParentOf_explicit kvs args v hv, hvt]
      · have : (pipeArgStrOf kvs).isSome = false := by
          cases hs : (pipeArgStrOf kvs).isSome with
          | false => rfl
          | true => exact absurd (hpa.1 hs) hnp
        rw [useParentOf_default kvs args hnone, hag, this]; rfl

/-! ## `run_step` = arguments, child run, outcome -/

/-- **The shape of the pype step.** `get_arguments` fails ⇒ that error, the context as it was.
    Otherwise the step is `pypeWith a child` with `child` = running the pipeline `a.name` as
    `Pipeline.new_pipe_and_args` builds it (groups / success / failure as given, the context parser
    consulted iff `not skipParse`, with `pipeArg` as its input):
    `pypeWith a child = errTail a.raiseError ∘ (if a.useParent then pypeShared a child else pypeOwn a child)`. -/
theorem pype_step_decomposition (fuel : Nat) (prog : Program) (s : St) :
    (∀ n m, getPypeArgs s = .error (n, m) → pypeBody (fuel + 1) prog s = raiseNew s n m) ∧
    (∀ a, getPypeArgs s = .ok a →
      pypeBody (fuel + 1) prog s = pypeWith a (runPipeline fuel prog (pypeInst a)) s ∧
      pypeInst a = { name := a.name, groups := a.groups, success := a.success, failure := a.failure,
                     parseInput := !a.skipParse, contextArgs := a.pipeArg, groupsBad := a.groupsBad }) := by
  constructor
  · intro n m h; rw [pypeBody_eq, h]
  · intro a h; rw [pypeBody_eq, h]; exact ⟨rfl, rfl⟩

/-! ## own context: isolation and `out` -/

/-- **A child with its own context cannot affect the parent except through `out`** — for every child
    behaviour (`child` is an arbitrary function on the child's own state) and every way it ends.
    The child starts on `childStart a s`: a fresh context holding exactly `args` (empty without `args`)
    with an empty pipeline stack. Write `c` for the child's end (state, result), `r` for the step's
    (before the `raiseError` filter, which never touches the state: `pype_result_table`). Then
    * the parent's pipeline stack is what it was;
    * **frame**: every key that is not a parent key of `out` has the value (or the absence) it had
      before — also when `out` processing fails half way;
    * child did not end normally (error, Stop, …) ⇒ the parent context is **exactly** what it was —
      `out` is not consulted — and the step's result is the child's;
    * child ended normally, no `out` ⇒ parent context exactly what it was, result ok;
    * child ended normally, `out` (str / list / dict form, `outPairs`) ⇒ the parent context is
      `dict.update`d, in `out` order, with the **formatted child values** (`get_formatted` against the
      child's final context) of the longest prefix of `out` whose child keys exist and format; the
      result is ok iff that is all of `out`; and then every parent key of `out` holds the formatted
      value of its child key (the last pair for a parent key decides);
    * `out` of any other type ⇒ that error, parent context exactly what it was. -/
theorem pype_own_context_isolated (a : PypeArgs) (child : Body) (s : St) :
    let c := child (childStart a s)
    let r := pypeOwn a child s
    ((childStart a s).ctx = a.args.getD [] ∧ (childStart a s).stack = []) ∧
    r.1.stack = s.stack ∧
    (∀ k, k ∉ outKeys a.out → Ctx.get? r.1.ctx k = Ctx.get? s.ctx k) ∧
    (c.2 ≠ .ok → r = (backIn s c.1, c.2) ∧ r.1.ctx = s.ctx) ∧
    (c.2 = .ok → a.out = none → r = (backIn s c.1, .ok) ∧ r.1.ctx = s.ctx) ∧
    (∀ o ps, c.2 = .ok → a.out = some o → outPairs o = .ok ps →
      r.1.ctx = Ctx.update s.ctx (outVals c.1.ctx ps) ∧
      (outVals c.1.ctx ps).map (·.1) <+: ps.map (·.1) ∧
      (∀ k v, (k, v) ∈ outVals c.1.ctx ps → ∃ ck, (k, ck) ∈ ps ∧ childFormatted c.1.ctx ck = .ok v) ∧
      (r.2 = .ok ↔ outFailure c.1.ctx ps = none) ∧
      (r.2 = .ok → (outVals c.1.ctx ps).map (·.1) = ps.map (·.1)) ∧
      (r.2 = .ok → ∀ pk, pk ∈ ps.map (·.1) →
        ∃ ck fv, (pk, ck) ∈ ps ∧ childFormatted c.1.ctx ck = .ok fv ∧ Ctx.get? r.1.ctx pk = some fv) ∧
      (r.2 = .ok → ∀ pre post pk ck, ps = pre ++ (pk, ck) :: post → pk ∉ post.map (·.1) →
        ∃ fv, childFormatted c.1.ctx ck = .ok fv ∧ Ctx.get? r.1.ctx pk = some fv)) ∧
    (∀ o n m, c.2 = .ok → a.out = some o → outPairs o = .error (n, m) →
      r = raiseNew (backIn s c.1) n m ∧ r.1.ctx = s.ctx) := by
  intro c r
  refine ⟨⟨rfl, rfl⟩, pypeOwn_stack a child s, pypeOwn_frame a child s, ?_, ?_, ?_, ?_⟩
  · intro hne
    have h := pypeOwn_nonok a child s c.1 c.2 rfl hne
    exact ⟨h, by show (pypeOwn a child s).1.ctx = s.ctx; rw [h]; rfl⟩
  · intro hok ho
    have h := pypeOwn_ok_noout a child s c.1 (by rw [← hok]) ho
    exact ⟨h, by show (pypeOwn a child s).1.ctx = s.ctx; rw [h]; rfl⟩
  · intro o ps hok ho hps
    have h : r = writeOut o (backIn s c.1) c.1 := pypeOwn_ok_out a child s c.1 o (by rw [← hok]) ho
    rw [writeOut_closed, hps] at h
    simp only [] at h
    have hctx : r.1.ctx = Ctx.update s.ctx (outVals c.1.ctx ps) := by
      rw [h]; cases outFailure c.1.ctx ps <;> rfl
    have hres : r.2 = .ok ↔ outFailure c.1.ctx ps = none := by
      rw [h]
      cases outFailure c.1.ctx ps with
      | none => simp
      | some e => simp [raiseNew]
    refine ⟨hctx, outVals_keys_prefix _ _, outVals_mem _ _, hres, ?_, ?_, ?_⟩
    · intro hr; exact outVals_keys_all _ _ (hres.1 hr)
    · intro hr pk hpk
      rw [hctx]; exact get_update_outVals_mem _ _ _ _ (hres.1 hr) hpk
    · intro hr pre post pk ck hsplit hlast
      rw [hctx, hsplit]
      exact get_update_outVals_last _ _ _ _ _ _ (by rw [← hsplit]; exact hres.1 hr) hlast
  · intro o n m hok ho hps
    have h : r = writeOut o (backIn s c.1) c.1 := pypeOwn_ok_out a child s c.1 o (by rw [← hok]) ho
    rw [writeOut_closed, hps] at h
    exact ⟨h, by rw [h]; rfl⟩

/-- the same read off the pype step itself: with its own context (`useParent = false`), for every
    program, child pipeline and fuel, the parent's stack is unchanged, every key outside `out` keeps
    its value, and unless the child pipeline ended normally the parent context is exactly what it was. -/
theorem pype_step_own_context_isolated (fuel : Nat) (prog : Program) (s : St) (a : PypeArgs)
    (ha : getPypeArgs s = .ok a) (hu : a.useParent = false) :
    let c := runPipeline fuel prog (pypeInst a) (childStart a s)
    let r := pypeBody (fuel + 1) prog s
    r.1 = (pypeOwn a (runPipeline fuel prog (pypeInst a)) s).1 ∧
    r.1.stack = s.stack ∧
    (∀ k, k ∉ outKeys a.out → Ctx.get? r.1.ctx k = Ctx.get? s.ctx k) ∧
    (c.2 ≠ .ok → r.1.ctx = s.ctx) ∧
    (a.out = none → r.1.ctx = s.ctx) := by
  intro c r
  have hr : r.1 = (pypeOwn a (runPipeline fuel prog (pypeInst a)) s).1 := by
    show (pypeBody (fuel + 1) prog s).1 = _
    rw [pypeBody_eq, ha]
    simp only [pypeWith, hu, Bool.false_eq_true, if_false, errTail_state]
  obtain ⟨_, hst, hfr, hne, hno, _, _⟩ := pype_own_context_isolated a (runPipeline fuel prog (pypeInst a)) s
  refine ⟨hr, by rw [hr]; exact hst, fun k hk => by rw [hr]; exact hfr k hk, fun h => by rw [hr]; exact (hne h).2, ?_⟩
  intro ho
  rw [hr]
  by_cases hc : c.2 = .ok
  · exact (hno hc ho).2
  · exact (hne hc).2

/-! ## shared context -/

/-- **With the parent context shared the child sees and mutates that same context**, for every child
    behaviour: the child runs on the parent's own state — same data with `args` merged in by
    `dict.update` (`context.update(args)`), same pipeline stack, same globals — and the state after the
    step is the state the child left: no copy, nothing written back, nothing restored. (`out` cannot be
    given in this mode: `pype_args_table`.) -/
theorem pype_shared_context (a : PypeArgs) (child : Body) (s : St) (hu : a.useParent = true) :
    mergeArgs a s = { s with ctx := Ctx.update s.ctx (a.args.getD []) } ∧
    pypeWith a child s = errTail a.raiseError (child (mergeArgs a s)) ∧
    (pypeWith a child s).1 = (child (mergeArgs a s)).1 := by
  refine ⟨?_, ?_, ?_⟩
  · unfold mergeArgs
    cases a.args with
    | none => rfl
    | some kvs => cases kvs <;> rfl
  · simp only [pypeWith, hu, if_true, pypeShared]
  · simp only [pypeWith, hu, if_true, pypeShared, errTail_state]

/-- the same read off the pype step: the final context of the step is the child pipeline's final context. -/
theorem pype_step_shared_context (fuel : Nat) (prog : Program) (s : St) (a : PypeArgs)
    (ha : getPypeArgs s = .ok a) (hu : a.useParent = true) :
    (pypeBody (fuel + 1) prog s).1 =
      (runPipeline fuel prog (pypeInst a) { s with ctx := Ctx.update s.ctx (a.args.getD []) }).1 ∧
    a.out = none := by
  obtain ⟨hm, _, hst⟩ := pype_shared_context a (runPipeline fuel prog (pypeInst a)) s hu
  constructor
  · rw [pypeBody_eq, ha]; simp only []; rw [hst, hm]
  · obtain ⟨raw, kvs, _, _, hd⟩ := getPypeArgs_ok s a ha
    obtain ⟨_, _, hout, hup, _, _, _, _, _, _, hexcl⟩ := pypeArgsOfDict_ok kvs a hd
    rw [← hout, ← hup, hu, Bool.and_true] at hexcl
    cases ho : a.out with
    | none => rfl
    | some o => rw [ho] at hexcl; cases hexcl

/-! ## what the parent gets -/

/-- **The result table of the pype step**, for every child behaviour, in both modes. `c` is the
    child's end, `r` the step's.
    * child error `e` ⇒ `raiseError` true: the step fails with **that** error (same exception object,
      same `handled` flag); `raiseError` false: the step ends normally — the parent carries on with its
      next step;
    * child `Stop` ⇒ `Stop`, whatever `raiseError` is;
    * child ended normally ⇒ ok — in the own-context mode with `out`, what
      `write_child_context_to_parent` makes of it, its error being subject to `raiseError` too;
    * anything that is neither an error nor a normal end is handed on unchanged;
    * the `raiseError` filter never touches the state;
    * pype produces no `StopPipeline` of its own. (And no child pipeline ever returns one:
      `stopPipeline_never_leaves_a_pipeline`.) -/
theorem pype_result_table (a : PypeArgs) (child : Body) (s : St) :
    let c := if a.useParent then child (mergeArgs a s) else child (childStart a s)
    let r := pypeWith a child s
    (∀ e h, c.2 = .err e h → r.2 = if a.raiseError then .err e h else .ok) ∧
    (c.2 = .stop → r.2 = .stop) ∧
    (c.2 = .ok → (a.useParent = true ∨ a.out = none) → r.2 = .ok) ∧
    (∀ o, c.2 = .ok → a.useParent = false → a.out = some o →
        r = errTail a.raiseError (writeOut o (backIn s c.1) c.1)) ∧
    (∀ x, c.2 = x → x.isErr = false → x ≠ .ok → r.2 = x) ∧
    (r.1 = (if a.useParent then pypeShared a child s else pypeOwn a child s).1) ∧
    (c.2 ≠ .stopPipeline → r.2 ≠ .stopPipeline) := by
  intro c r
  have key : ∀ x, c.2 = x → x ≠ .ok →
      (if a.useParent then pypeShared a child s else pypeOwn a child s).2 = x := by
    intro x hx hne
    cases hu : a.useParent with
    | true =>
      simp only [if_true, pypeShared]
      have : c = child (mergeArgs a s) := by show (if a.useParent then _ else _) = _; rw [hu]; rfl
      rw [← this]; exact hx
    | false =>
      simp only [Bool.false_eq_true, if_false]
      have hc : c = child (childStart a s) := by show (if a.useParent then _ else _) = _; rw [hu]; rfl
      rw [pypeOwn_nonok a child s c.1 x (by rw [hc] at hx ⊢; rw [← hx]) hne]
  have split : ∀ (p : St × Res), p = (p.1, p.2) := fun p => rfl
  refine ⟨?_, ?_, ?_, ?_, ?_, ?_, ?_⟩
  · intro e h hc
    show (pypeWith a child s).2 = _
    unfold pypeWith
    rw [split (if a.useParent then _ else _), key _ hc (by simp), errTail_err]
  · intro hc
    show (pypeWith a child s).2 = _
    unfold pypeWith
    rw [split (if a.useParent then _ else _), key _ hc (by simp)]; rfl
  · intro hc hmode
    show (pypeWith a child s).2 = _
    unfold pypeWith
    cases hu : a.useParent with
    | true =>
      have : c = child (mergeArgs a s) := by show (if a.useParent then _ else _) = _; rw [hu]; rfl
      simp only [if_true, pypeShared]
      rw [← this, split c, hc]; rfl
    | false =>
      have hcc : c = child (childStart a s) := by show (if a.useParent then _ else _) = _; rw [hu]; rfl
      have ho : a.out = none := by
        rcases hmode with h | h
        · rw [hu] at h; cases h
        · exact h
      simp only [Bool.false_eq_true, if_false]
      rw [pypeOwn_ok_noout a child s c.1 (by rw [hcc] at hc ⊢; rw [← hc]) ho]; rfl
  · intro o hc hu ho
    have hcc : c = child (childStart a s) := by show (if a.useParent then _ else _) = _; rw [hu]; rfl
    show pypeWith a child s = _
    unfold pypeWith
    simp only [hu, Bool.false_eq_true, if_false]
    rw [pypeOwn_ok_out a child s c.1 o (by rw [hcc] at hc ⊢; rw [← hc]) ho]
  · intro x hc hx hne
    show (pypeWith a child s).2 = _
    unfold pypeWith
    rw [split (if a.useParent then _ else _), key _ hc hne, errTail_nonerr _ _ _ hx]
  · exact errTail_state _ _
  · intro hc
    show (pypeWith a child s).2 ≠ _
    unfold pypeWith
    apply errTail_ne_stopPipeline
    cases hu : a.useParent with
    | true =>
      have : c = child (mergeArgs a s) := by show (if a.useParent then _ else _) = _; rw [hu]; rfl
      simp only [if_true, pypeShared]; rw [← this]; exact hc
    | false =>
      have hcc : c = child (childStart a s) := by show (if a.useParent then _ else _) = _; rw [hu]; rfl
      simp only [Bool.false_eq_true, if_false]
      exact pypeOwn_ne_stopPipeline a child s (by rw [← hcc]; exact hc)

/-- **`StopPipeline` ends only the pipeline it was raised in**: for every program, pipeline instance,
    state and fuel, `_run_pipeline` never returns `StopPipeline` (it turns it into a normal end — the
    two clauses are `C02.stopPipeline_ends_only_its_pipeline` and
    `C02.stopPipeline_from_parser_failure_handler`), so a pype step sees a child that was stopped this
    way as ended normally; and the pype step itself never returns `StopPipeline` either. `Stop`, on the
    other hand, is handed on by the pipeline (`C02.stop_leaves_pipeline`) and by pype
    (`pype_result_table`), up to the root. -/
theorem stopPipeline_never_leaves_a_pipeline (fuel : Nat) (prog : Program) :
    (∀ pi s, (runPipeline fuel prog pi s).2 ≠ .stopPipeline) ∧
    (∀ s, (pypeBody fuel prog s).2 ≠ .stopPipeline) :=
  ⟨runPipeline_ne_stopPipeline fuel prog, pypeBody_ne_stopPipeline fuel prog⟩

/-- a `StopPipeline` out of the child's groups: the child pipeline ends normally in that state (its
    stack entry popped) — that is what the pype step then sees. -/
theorem child_stopPipeline_is_normal_end (fuel : Nat) (prog : Program) (pi : PipeInst) (pd : PipeDef)
    (s s1 s2 : St) (hp : prog.find? pi.name = some pd) (hgb : pi.groupsBad = false)
    (hprep : prepareContext pd pi { s with stack := pi.name :: s.stack } = (s1, .ok))
    (hg : runGroups fuel prog pi.name (effectiveGroups pi).1 (effectiveGroups pi).2.1 (effectiveGroups pi).2.2 s1
            = (s2, .stopPipeline)) :
    runPipeline (fuel + 1) prog pi s = ({ s2 with stack := s2.stack.drop 1 }, .ok) := by
  rw [runPipeline_eq fuel prog pi pd s hp hgb]
  simp only [hprep, hg]

/-- **A child error reaches the pype step only after the child's own failure handler ran.** Whenever a
    child pipeline returns the error `e`, then either the pipeline could not be loaded (nothing ran), or
    its context parser raised `e` and the child's failure group ran on that state before `e` was handed
    on, or the main phase of the child's `run_step_groups` (its groups, then its success group) ended
    with that very `e` and — a failure group being named — the child's failure group ran once from the
    state of the failure, ended, and only then `e` (the original, C01 `runGroups_err_is_original`)
    was handed on; the state the pype step receives is the one the handler left. (No failure group
    named: the state of the failure.) By `pype_result_table` that `e` then fails the step iff `raiseError`. -/
theorem child_error_after_its_failure_handler (fuel : Nat) (prog : Program) (pi : PipeInst) (s s' : St)
    (e : ExcV) (h : Bool) (hgb : pi.groupsBad = false) (hr : runPipeline fuel prog pi s = (s', .err e h)) :
    (prog.find? pi.name = none ∧ s'.ctx = s.ctx) ∨
    (∃ pd n s1 s2, fuel = n + 1 ∧ prog.find? pi.name = some pd ∧
        prepareContext pd pi { s with stack := pi.name :: s.stack } = (s1, .err e h) ∧
        (runFailureGroup n prog pi.name (effectiveGroups pi).2.2 s1 = (s2, .ok) ∨
         runFailureGroup n prog pi.name (effectiveGroups pi).2.2 s1 = (s2, .stopGroup)) ∧
        s' = { s2 with stack := s2.stack.drop 1 }) ∨
    (∃ pd n s0 s1, fuel = n + 2 ∧ prog.find? pi.name = some pd ∧
        prepareContext pd pi { s with stack := pi.name :: s.stack } = (s0, .ok) ∧
        mainPhase n prog pi.name (effectiveGroups pi).1 (effectiveGroups pi).2.1 s0 = (s1, .err e h) ∧
        ((hasFailureGroup (effectiveGroups pi).2.2 = false ∧ s' = { s1 with stack := s1.stack.drop 1 }) ∨
         (hasFailureGroup (effectiveGroups pi).2.2 = true ∧
            ∃ s2, runFailureGroup n prog pi.name (effectiveGroups pi).2.2 s1 = (s2, .ok) ∧
              s' = { s2 with stack := s2.stack.drop 1 }))) :=
  runPipeline_err_after_handler fuel prog pi s s' e h hgb hr

/-! ## the parent is the current pipeline again -/

/-- **The pipeline scope is balanced**, for every program, fuel, state — every child outcome: the
    context's pipeline stack after `load_and_run_pipeline` is the stack before (pushed on entry, popped
    in the `finally`), after the pype step it is the stack before in both modes (own context: the
    parent's context object was never touched; shared: by the first clause — and by the global
    induction for everything the child itself pypes, calls or jumps to), and so it is after any whole
    decorated step. For an arbitrary child body the own-context mode needs no assumption at all. -/
theorem pipeline_scope_balanced (fuel : Nat) (prog : Program) :
    (∀ pi s, (runPipeline fuel prog pi s).1.stack = s.stack) ∧
    (∀ s, (pypeBody fuel prog s).1.stack = s.stack) ∧
    (∀ pipe d s, (runStep fuel prog pipe d s).1.stack = s.stack) ∧
    (∀ a (child : Body) s, a.useParent = false → (pypeWith a child s).1.stack = s.stack) ∧
    (∀ a (child : Body) s, a.useParent = true →
        (child (mergeArgs a s)).1.stack = (mergeArgs a s).stack → (pypeWith a child s).1.stack = s.stack) := by
  refine ⟨runPipeline_stack fuel prog, pypeBody_stack fuel prog, runStep_stack fuel prog, ?_, ?_⟩
  · intro a child s hu
    simp only [pypeWith, hu, Bool.false_eq_true, if_false, errTail_state]
    exact pypeOwn_stack a child s
  · intro a child s hu hc
    rw [(pype_shared_context a child s hu).2.2, hc, (pype_shared_context a child s hu).1]

/-- **After the child ended — in any way — the parent is the current pipeline again**: after the pype
    step (and after any step) `context.current_pipeline` (`stack.head?`) and the stack depth are what
    they were, so the pipeline in whose definition a later `call` / `jump` / `switch` step of the parent
    looks up its groups (the `callee` of `runStep`: `stack.head?.getD pipe`) is the one it was before
    the pype — the parent. -/
theorem parent_is_current_after_pype (fuel : Nat) (prog : Program) (pipe : String) (d : StepDef) (s : St) :
    let s1 := (runStep fuel prog pipe d s).1
    let s2 := (pypeBody fuel prog s).1
    s1.stack.head? = s.stack.head? ∧ s1.stack.length = s.stack.length ∧
    s2.stack.head? = s.stack.head? ∧ s2.stack.length = s.stack.length ∧
    (∀ f (c : CofCfg), runGroups f prog (s1.stack.head?.getD pipe) c.groups c.success c.failure =
                        runGroups f prog (s.stack.head?.getD pipe) c.groups c.success c.failure) ∧
    (∀ f (c : CofCfg), runGroups f prog (s2.stack.head?.getD pipe) c.groups c.success c.failure =
                        runGroups f prog (s.stack.head?.getD pipe) c.groups c.success c.failure) := by
  intro s1 s2
  have h1 : s1.stack = s.stack := runStep_stack fuel prog pipe d s
  have h2 : s2.stack = s.stack := pypeBody_stack fuel prog s
  refine ⟨by rw [h1], by rw [h1], by rw [h2], by rw [h2], fun f c => by rw [h1], fun f c => by rw [h2]⟩

/-- while the child runs, the child is the current pipeline: its groups run with its name pushed on the
    stack it was given (the parent's in shared mode, the empty one of its own context otherwise). -/
theorem child_is_current_while_it_runs (fuel : Nat) (prog : Program) (pi : PipeInst) (pd : PipeDef) (s : St)
    (hp : prog.find? pi.name = some pd) (hgb : pi.groupsBad = false) :
    ∃ inner : St × Res,
      runPipeline (fuel + 1) prog pi s = ({ inner.1 with stack := inner.1.stack.drop 1 }, inner.2) ∧
      (∀ s1, prepareContext pd pi { s with stack := pi.name :: s.stack } = (s1, .ok) →
        s1.stack = pi.name :: s.stack ∧
        ∃ x, runGroups fuel prog pi.name (effectiveGroups pi).1 (effectiveGroups pi).2.1 (effectiveGroups pi).2.2 s1
              = (inner.1, x)) := by
  rw [runPipeline_eq fuel prog pi pd s hp hgb]
  simp only []
  refine ⟨_, rfl, ?_⟩
  intro s1 hprep
  have hst : s1.stack = pi.name :: s.stack := by
    have := prepareContext_rel stackRel_global pd pi { s with stack := pi.name :: s.stack }
    rw [hprep] at this; exact this
  refine ⟨hst, ?_⟩
  rw [hprep]
  simp only []
  generalize runGroups fuel prog pi.name (effectiveGroups pi).1 (effectiveGroups pi).2.1 (effectiveGroups pi).2.2 s1 = q
  obtain ⟨s2, r2⟩ := q
  cases r2 <;> exact ⟨_, rfl⟩

/-! ## non-vacuity: concrete runs -/

def probe (tag : String) (extra : List (Val × Val) := []) : StepDef :=
  { name := some "vprobe", inArgs := some [("p", .dict ((.str "tag", .str tag) :: extra))] }

def pype (cfg : List (Val × Val)) : StepDef :=
  { name := some "pypyr.steps.pype", inArgs := some [("pype", .dict cfg)] }

def setKeys (kvs : List (String × String)) : Val × Val :=
  (.str "set", .dict (kvs.map fun kv => (.str kv.1, .str kv.2)))

def callGrp : StepDef := { name := some "pypyr.steps.call", inArgs := some [("call", .str "grp")] }

/-- children: `child` clobbers `keep`, sets `x` to an expression over its own `seed`, sets `junk`, and
    has a group `grp` of its own; `bad` clobbers `keep` and fails, its failure handler runs; `halt`
    issues Stop; `quit` issues StopPipeline. Parents: `main` (own context via `args`, `out: [x]`, then a
    probe, then `call: grp`), `mainErr` (`raiseError: false`), `mainRaise`, `mainStop`, `mainQuit`,
    `mainShared` (no args: the parent context is shared). -/
def demoProg : Program := ⟨[
  { name := "child", groups := [
      ("steps", .steps [probe "c1" [setKeys [("keep", "CLOBBER"), ("x", "new-{seed}"), ("junk", "J")]]]),
      ("grp", .steps [probe "g-child"])] },
  { name := "bad", groups := [
      ("steps", .steps [probe "b1" [setKeys [("keep", "CLOBBER")], (.str "failRest", .str "E1")], probe "b2"]),
      ("on_failure", .steps [probe "h1"])] },
  { name := "halt", groups := [
      ("steps", .steps [probe "s1", { name := some "pypyr.steps.stop", simple := true }, probe "s2"])] },
  { name := "quit", groups := [
      ("steps", .steps [probe "q1", { name := some "pypyr.steps.stoppipeline", simple := true }, probe "q2"])] },
  { name := "main", groups := [
      ("steps", .steps [
        probe "m1" [setKeys [("keep", "K"), ("x", "old")]],
        pype [(.str "name", .str "child"), (.str "args", .dict [(.str "seed", .str "S")]),
              (.str "out", .list [.str "x"])],
        probe "m2", callGrp]),
      ("grp", .steps [probe "g-main"])] },
  { name := "mainErr", groups := [
      ("steps", .steps [
        probe "m1" [setKeys [("keep", "K")]],
        pype [(.str "name", .str "bad"), (.str "args", .dict [(.str "seed", .str "S")]),
              (.str "raiseError", .bool false)],
        probe "m2"])] },
  { name := "mainRaise", groups := [
      ("steps", .steps [
        probe "m1" [setKeys [("keep", "K")]],
        pype [(.str "name", .str "bad"), (.str "useParentContext", .bool false)],
        probe "m2"])] },
  { name := "mainStop", groups := [
      ("steps", .steps [probe "m1", pype [(.str "name", .str "halt"), (.str "raiseError", .bool false)], probe "m2"])] },
  { name := "mainQuit", groups := [
      ("steps", .steps [probe "m1", pype [(.str "name", .str "quit")], probe "m2", callGrp]),
      ("grp", .steps [probe "g-main"])] },
  { name := "mainShared", groups := [
      ("steps", .steps [
        probe "m1" [setKeys [("keep", "K"), ("seed", "S")]],
        pype [(.str "name", .str "child")],
        probe "m2", callGrp]),
      ("grp", .steps [probe "g-shared"])] }]⟩

/-- own context + `out`: the child clobbered `keep` and set `junk` — the parent sees neither; `x` is
    the child's value **formatted against the child's context** (`new-{seed}` ↦ `new-S`); `seed` (an
    `args` key) never reaches the parent; after the pype the parent's `call: grp` runs the parent's
    `grp`, not the child's; each probe saw the pipeline it belongs to as the current one, the child at
    depth 1 of its own stack. -/
example :
    let r := runRoot 60 demoProg { name := "main" } {}
    r.2 = .ok ∧ r.1.trace.map (·.tag) = ["m1", "c1", "m2", "g-main"] ∧
    r.1.trace.map (·.pipe) = ["main", "child", "main", "main"] ∧
    r.1.trace.map (·.depth) = [1, 1, 1, 1] ∧
    Ctx.get? r.1.ctx "keep" = some (.str "K") ∧ Ctx.get? r.1.ctx "x" = some (.str "new-S") ∧
    Ctx.get? r.1.ctx "junk" = none ∧ Ctx.get? r.1.ctx "seed" = none ∧ r.1.stack = [] := by
  decide +kernel

/-- the pype configuration of `main`, and the state in which its pype step's module runs -/
def demoCfg : Dict := [(.str "name", .str "child"), (.str "args", .dict [(.str "seed", .str "S")]),
                       (.str "out", .list [.str "x"])]

def demoSt : St := { ctx := [("keep", .str "K"), ("x", .str "old"), ("pype", .dict demoCfg)], stack := ["main"] }

/-- the arguments `get_arguments` reads there -/
def demoArgs : PypeArgs :=
  { name := "child", args := some [("seed", .str "S")], out := some (.list [.str "x"]), useParent := false,
    pipeArg := none, skipParse := true, raiseError := true, groups := none, groupsBad := false,
    success := none, failure := none }

/-- the hypotheses of `pype_args_table`, `pype_step_own_context_isolated` and of the `out` clause of
    `pype_own_context_isolated` on that run's pype step: arguments are read from a formatted mapping,
    `args` given and no `useParentContext` ⇒ own context; the child ends normally; `out` is the
    one-pair list; the step ends normally. -/
example :
    (assertKeyHasValue demoSt "pype" "pypyr.steps.pype").toOption = some (.dict demoCfg) ∧
    (fmtAtKey demoSt (.dict demoCfg)).toOption = some (.dict demoCfg) ∧
    argsRow demoSt = some demoArgs ∧
    (outPairs (.list [.str "x"])).toOption = some [("x", "x")] ∧
    (let c := runPipeline 50 demoProg (pypeInst demoArgs) (childStart demoArgs demoSt)
     let r := pypeBody 51 demoProg demoSt
     c.2 = .ok ∧ Ctx.get? c.1.ctx "keep" = some (.str "CLOBBER") ∧ Ctx.get? c.1.ctx "x" = some (.str "new-{seed}") ∧
     (childFormatted c.1.ctx "x").toOption = some (.str "new-S") ∧ outFailure c.1.ctx [("x", "x")] = none ∧
     r.2 = .ok ∧ Ctx.get? r.1.ctx "keep" = some (.str "K") ∧ Ctx.get? r.1.ctx "x" = some (.str "new-S") ∧
     r.1.stack = ["main"]) := by
  decide +kernel

/-- the exclusivity clause of `pype_args_table`: a truthy `out` with `useParentContext: true`, and with
    neither `args` nor `pipeArg` (so `useParentContext` defaults to true), is a ContextError. -/
example :
    argsErr { ctx := [("pype", .dict [(.str "name", .str "child"), (.str "out", .str "x"),
                                       (.str "useParentContext", .bool true)])] }
      = some "pypyr.errors.ContextError" ∧
    argsErr { ctx := [("pype", .dict [(.str "name", .str "child"), (.str "out", .str "x")])] }
      = some "pypyr.errors.ContextError" := by
  decide +kernel

/-- defaults of `get_arguments` on three more mappings: nothing given ⇒ shared context, skipParse,
    raiseError; `pipeArg` given ⇒ own context, parse, the words passed on; explicit `useParentContext`
    and `skipParse` win over `args` / `pipeArg`; `groups` string ⇒ one-element list. -/
example :
    argsRow { ctx := [("pype", .dict [(.str "name", .str "c")])] }
      = some { name := "c", args := none, out := none, useParent := true, pipeArg := none, skipParse := true,
               raiseError := true, groups := none, groupsBad := false, success := none, failure := none } ∧
    argsBrief { ctx := [("pype", .dict [(.str "name", .str "c"), (.str "pipeArg", .str "a=1 b=2")])] }
      = some ⟨false, false, true, true, none⟩ ∧
    argsBrief { ctx := [("pype", .dict [(.str "name", .str "c"), (.str "pipeArg", .str "a=1"),
         (.str "args", .dict [(.str "k", .int 1)]), (.str "useParentContext", .bool true),
         (.str "skipParse", .bool true), (.str "groups", .str "g"), (.str "raiseError", .bool false)])] }
      = some ⟨true, true, false, true, some ["g"]⟩ := by
  decide +kernel

/-- child error, `raiseError: false`: the child's failure handler (`h1`) ran before the step ended; the
    step ended normally and the parent carried on with its next step (`m2`); the child's clobbering of
    `keep` did not reach the parent. With `raiseError` left at its default the run fails with the
    child's original error and `m2` never runs — still after `h1`. -/
example :
    let r := runRoot 60 demoProg { name := "mainErr" } {}
    let r' := runRoot 60 demoProg { name := "mainRaise" } {}
    r.2 = .ok ∧ r.1.trace.map (·.tag) = ["m1", "b1", "h1", "m2"] ∧ Ctx.get? r.1.ctx "keep" = some (.str "K") ∧
    r'.2 = .err ⟨0, "E1", "boom b1"⟩ false ∧ r'.1.trace.map (·.tag) = ["m1", "b1", "h1"] ∧
    Ctx.get? r'.1.ctx "keep" = some (.str "K") ∧ r'.1.stack = [] := by
  decide +kernel

/-- the hypothesis of `child_error_after_its_failure_handler` holds for the child `bad` (third case:
    main phase error, failure group `on_failure` named by default, handler ended normally). -/
example :
    let r := runPipeline 50 demoProg { name := "bad" } {}
    r.2 = .err ⟨0, "E1", "boom b1"⟩ false ∧ r.1.trace.map (·.tag) = ["b1", "h1"] ∧
    hasFailureGroup (effectiveGroups { name := "bad" }).2.2 = true := by
  decide +kernel

/-- Stop in the child ends everything, even with `raiseError: false` (`m2` never runs); StopPipeline in
    the child ends only the child (`q2` does not run, the parent's `m2` and its `call: grp` do, in the
    parent's definition). -/
example :
    let r := runRoot 60 demoProg { name := "mainStop" } {}
    let r' := runRoot 60 demoProg { name := "mainQuit" } {}
    (runPipeline 59 demoProg { name := "mainStop" } {}).2 = .stop ∧
    r.2 = .ok ∧ r.1.trace.map (·.tag) = ["m1", "s1"] ∧
    r'.2 = .ok ∧ r'.1.trace.map (·.tag) = ["m1", "q1", "m2", "g-main"] ∧
    r'.1.trace.map (·.pipe) = ["mainQuit", "quit", "mainQuit", "mainQuit"] ∧
    r'.1.trace.map (·.depth) = [1, 2, 1, 1] := by
  decide +kernel

/-- the hypotheses of `child_stopPipeline_is_normal_end` on the child `quit`. -/
example :
    (prepareContext { name := "quit", groups := [] } { name := "quit" } { stack := ["quit"] }).2 = .ok ∧
    (runGroups 50 demoProg "quit" ["steps"] (some "on_success") (some "on_failure") { stack := ["quit"] }).2
      = .stopPipeline ∧
    (runPipeline 51 demoProg { name := "quit" } {}).2 = .ok := by
  decide +kernel

/-- shared context (`pype_shared_context`: no `args`, no `pipeArg` ⇒ `useParent`): the child saw the
    parent's `seed`, and everything it did is in the parent's context afterwards — `keep` clobbered,
    `junk` present, `x` **unformatted** (nothing is copied or formatted on the way back); the child ran
    at depth 2 of the shared stack; afterwards the parent is current again. -/
example :
    let r := runRoot 60 demoProg { name := "mainShared" } {}
    r.2 = .ok ∧ r.1.trace.map (·.tag) = ["m1", "c1", "m2", "g-shared"] ∧
    r.1.trace.map (·.pipe) = ["mainShared", "child", "mainShared", "mainShared"] ∧
    r.1.trace.map (·.depth) = [1, 2, 1, 1] ∧
    Ctx.get? r.1.ctx "keep" = some (.str "CLOBBER") ∧ Ctx.get? r.1.ctx "x" = some (.str "new-{seed}") ∧
    Ctx.get? r.1.ctx "junk" = some (.str "J") ∧ Ctx.get? r.1.ctx "seed" = some (.str "S") := by
  decide +kernel

/-- `out` in its three forms, and a failure half way: the dict form maps parent key ↦ child key; with a
    missing child key the keys before it stay written, the result is the KeyNotInContextError, and keys
    outside `out` are untouched. -/
example :
    let parent : St := { ctx := [("keep", .str "K")], stack := ["main"] }
    let child : St := { ctx := [("a", .str "A-{b}"), ("b", .str "B")], stack := [] }
    let r1 := writeOut (.str "a") parent child
    let r2 := writeOut (.dict [(.str "pa", .str "a"), (.str "pb", .str "b")]) parent child
    let r3 := writeOut (.list [.str "b", .str "nope", .str "a"]) parent child
    r1.2 = .ok ∧ r1.1.ctx = [("keep", .str "K"), ("a", .str "A-B")] ∧
    r2.2 = .ok ∧ r2.1.ctx = [("keep", .str "K"), ("pa", .str "A-B"), ("pb", .str "B")] ∧
    r3.2 = .err ⟨0, "pypyr.errors.KeyNotInContextError", "nope not found in the pypyr context."⟩ false ∧
    r3.1.ctx = [("keep", .str "K"), ("b", .str "B")] ∧ r3.1.stack = ["main"] ∧
    (writeOut (.int 3) parent child).1.ctx = parent.ctx := by
  decide +kernel

end Pypyr.C11
