/-
  Translated_C07 — `pypyr.errors.get_error_name`, GENERATED into Lean by harness/translate.py
  (Generated/TranslatedErrors.lean, regenerated on every check), gives every exception the models
  raise by name exactly the name the models use.

  In the models an exception carries its canonical name as a string (`Exc.name`, `ExcV.name`:
  "the canonical name (`get_error_name`)"); runErrors entries (C07), the retry filters stopOn/retryOn
  (C06), swallow/`runErrors` bookkeeping all compare those strings. The model has no function for the
  naming rule itself — it writes `"pypyr.errors.KeyNotInContextError"`, `"ValueError"` … as literals.
  The theorems here tie those literals to the code: the translated function maps (module, class) of
  each such exception to the literal, for the classes `pypyr/errors.py` really defines
  (`Generated.hierarchy`, extracted from the same source).

  Domain: `error` is any object; only `type(error).__module__` and `type(error).__name__` are read.
-/
import Generated.TranslatedErrors
import Generated.Ladders

namespace Pypyr.TranslatedC07
open Pypyr Pypyr.Translated.Errors

/-- the naming rule the models assume: bare class name for builtins and `__main__`, otherwise
    `module.Class`. -/
def modelErrorName (module name : String) : String :=
  if module == "__main__" || module == "builtins" then name else module ++ "." ++ name

/-- the translated `get_error_name` is that rule, for every object. -/
theorem translated_get_error_name_eq_model (e : PyRt.PyObj) :
    get_error_name e = modelErrorName e.type.module e.type.name := by
  simp only [get_error_name, modelErrorName, PyRt.inList, List.contains, List.elem]
  by_cases h1 : (e.type.module == "__main__") = true <;> by_cases h2 : (e.type.module == "builtins") = true <;>
    simp [h1, h2]

/-- the `pypyr.errors.*` names the models construct as literals (PypyrModel/Flow/*, Resolve, Cli). -/
def modelPypyrErrors : List String :=
  ["ContextError", "KeyInContextHasNoValueError", "KeyNotInContextError", "LoopMaxExhaustedError",
   "PipelineDefinitionError", "PipelineNotFoundError", "PyModuleNotFoundError", "HandledError", "Stop",
   "StopPipeline", "StopStepGroup", "Jump", "Call", "MultiError", "SubprocessError", "ConfigError", "Error"]

/-- the builtin exception names the models construct as literals. -/
def modelBuiltinErrors : List String :=
  ["AttributeError", "FileNotFoundError", "IndexError", "KeyError", "NameError", "TypeError", "ValueError",
   "Exception", "NotImplementedError"]

/-- every `pypyr.errors` class the models name is defined by `pypyr/errors.py` and the code names it
    `pypyr.errors.<Class>`; every builtin is named by its bare class name. -/
theorem translated_error_names_agree :
    (modelPypyrErrors.all fun c =>
        (Generated.hierarchy.any fun h => h.1 == c) &&
        get_error_name ⟨⟨"pypyr.errors", c⟩⟩ == "pypyr.errors." ++ c) = true ∧
    (modelBuiltinErrors.all fun c => get_error_name ⟨⟨"builtins", c⟩⟩ == c) = true ∧
    get_error_name ⟨⟨"vprobe", "ProbeError"⟩⟩ = "vprobe.ProbeError" ∧
    get_error_name ⟨⟨"__main__", "MyError"⟩⟩ = "MyError" := by
  decide +kernel

/-- and for all classes `pypyr/errors.py` defines. -/
theorem translated_hierarchy_names :
    (Generated.hierarchy.all fun h => get_error_name ⟨⟨"pypyr.errors", h.1⟩⟩ == "pypyr.errors." ++ h.1) = true := by
  decide +kernel

end Pypyr.TranslatedC07
