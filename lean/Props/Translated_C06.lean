/-
  Translated_C06 — the Lean definitions GENERATED from `pypyr/retries.py` by harness/translate.py
  (Generated/TranslatedRetries.lean, regenerated on every check) are equal, on every input of the
  declared domain, to the hand-written back-off model (`PypyrModel/Backoff.lean`: `capSleep`,
  `randomize`, `mkBackoff`, `fixedCall`, `interval`) that the C06 schedule theorems are about.

  Shape. Each concrete class `C` of `builtin_backoffs` is translated to a structure `C` (its
  attributes), `C.init` (`__init__`) and `C.call` (`__call__`, returning the updated object where
  the code mutates it, `Except` where a primitive can raise). `absC … : C → BackoffState` reads a
  translated object as a model state. Then
      init:  absC (C.init args) = mkBackoff kind args
      call:  C.call t n [rnd]   = interval (absC t) n (rnd :: rs)     (value, new state, randoms left)
  so by induction on the number of calls the translated object and the model produce the same
  schedule (`translated_*_schedule`).

  Domain (the declared types of the translation): sleep / max_sleep / jrc / base are exact numbers
  (`Num`), the retry counter `n` is a non-negative int, `kwargs` is None or a dict str ↦ number,
  a list (or set, in iteration order) sleep for `fixed` / `jitter`. Outside: rounding floats, inf/nan,
  non-numeric or bool sleeps (Python raises TypeError or multiplies lists), an EMPTY list sleep (the
  translated `fixed.init` raises IndexError there — `translated_fixed_init_empty` — the model's
  `mkBackoff … (some [])` is not meant to be used on it and the driver rejects it).
-/
import Generated.TranslatedRetries
import PypyrModel.Backoff
import Props.Lemmas.C06_Retry

set_option linter.unusedSimpArgs false

namespace Pypyr.TranslatedC06
open Pypyr Pypyr.Translated.Retries
open Pypyr.OpBackoff (schedule)

/-! ## primitives of PyRt = primitives of the model -/

theorem pyMin_eq (a b : Num) : PyRt.pyMin a b = Num.min a b := rfl
theorem natToNum_eq (n : Nat) : PyRt.natToNum n = Num.ofNat n := rfl
theorem randomUniform_eq (a b r : Num) : PyRt.randomUniform a b r = uniform a b r := rfl
theorem numPow_eq (b : Num) (n : Nat) : PyRt.numPow b n = b.pow n := by
  induction n with
  | zero => rfl
  | succ k ih => simp [PyRt.numPow, Num.pow, ih]

/-- exact multiplication commutes (so `n * sleep` and `sleep * n` in the source are the same thing). -/
theorem mul_comm' (a b : Num) : a.mul b = b.mul a := by
  simp [Num.mul, Int.mul_comm, Nat.add_comm, Bool.or_comm]
theorem mul_ofNat_comm (s : Num) (n : Nat) : s.mul (Num.ofNat n) = (Num.ofNat n).mul s := mul_comm' _ _
theorem mul_pow_comm (s b : Num) (n : Nat) : s.mul (b.pow n) = (b.pow n).mul s := mul_comm' _ _

theorem seqLast_cons (x : Num) (xs : List Num) : PyRt.seqLast (x :: xs) = .ok (lastOf x xs) := by
  induction xs generalizing x with
  | nil => rfl
  | cons y ys ih => simp [PyRt.seqLast, lastOf, ih]

theorem deque_full {α : Type} (xs : List α) : PyRt.deque xs xs.length = xs := by
  simp [PyRt.deque]

/-- `BackoffBase.min` as translated (the same body for every class) is the model's `capSleep`. -/
theorem cap_eq (ms : Option Num) (d : Num) :
    (match ms with
      | some m => if PyRt.truthyNum m then PyRt.pyMin d m else d
      | none => d) = capSleep ms d := by
  cases ms with
  | none => rfl
  | some m =>
    simp only [capSleep, PyRt.truthyNum, Num.isZero, PyRt.pyMin, Num.min]
    by_cases h : m.n = 0 <;> simp [h]

/-- closes `C.min self d = capSleep self.max_sleep d` whatever equivalent shape the source gives `min`. -/
macro "min_tac" f:ident : tactic =>
  `(tactic| (
    first
    | (rw [← cap_eq]; unfold $f; rfl)
    | (unfold $f; simp only []; rw [← cap_eq]; (repeat' split) <;> simp_all)
    | (unfold $f
       simp only [capSleep, PyRt.truthyNum, PyRt.truthyOpt, Num.isZero, PyRt.pyMin, PyRt.pyMax, Num.min,
         Option.isSome, Option.isNone]
       (repeat' split) <;> simp_all [bne])))

theorem translated_fixed_min_eq_model (t : fixed) (d : Num) : fixed.min t d = capSleep t.max_sleep d := by
  min_tac fixed.min
theorem translated_jitter_min_eq_model (t : jitter) (d : Num) : jitter.min t d = capSleep t.max_sleep d := by
  min_tac jitter.min
theorem translated_linear_min_eq_model (t : linear) (d : Num) : linear.min t d = capSleep t.max_sleep d := by
  min_tac linear.min
theorem translated_linearjitter_min_eq_model (t : linearjitter) (d : Num) :
    linearjitter.min t d = capSleep t.max_sleep d := by
  min_tac linearjitter.min
theorem translated_exponential_min_eq_model (t : exponential) (d : Num) :
    exponential.min t d = capSleep t.max_sleep d := by
  min_tac exponential.min
theorem translated_exponentialjitter_min_eq_model (t : exponentialjitter) (d : Num) :
    exponentialjitter.min t d = capSleep t.max_sleep d := by
  min_tac exponentialjitter.min

/-- `BackoffBase.randomize` as translated is the model's `randomize`. -/
theorem translated_jitter_randomize_eq_model (t : jitter) (d r : Num) :
    jitter.randomize t d r = randomize t.jrc d r := by
  simp [jitter.randomize, randomize, randomUniform_eq, PyRt.mul]
theorem translated_linearjitter_randomize_eq_model (t : linearjitter) (d r : Num) :
    linearjitter.randomize t d r = randomize t.jrc d r := by
  simp [linearjitter.randomize, randomize, randomUniform_eq, PyRt.mul]
theorem translated_exponentialjitter_randomize_eq_model (t : exponentialjitter) (d r : Num) :
    exponentialjitter.randomize t d r = randomize t.jrc d r := by
  simp [exponentialjitter.randomize, randomize, randomUniform_eq, PyRt.mul]

/-! ## translated objects read as model states -/

/-- a `fixed` object as a model state (`sl`, `base`: the two model fields the class does not have). -/
def absFixed (sl base : Num) (t : fixed) : BackoffState :=
  { kind := .fixed, sleep := sl, queue := t.queue.getD [], fixedSleep := t.fixed_sleep,
    maxSleep := t.max_sleep, jrc := t.jrc, base }

def absJitter (sl base : Num) (t : jitter) : BackoffState :=
  { kind := .jitter, sleep := sl, queue := t.queue.getD [], fixedSleep := t.fixed_sleep,
    maxSleep := t.max_sleep, jrc := t.jrc, base }

def absLinear (base : Num) (t : linear) : BackoffState :=
  { kind := .linear, sleep := t.sleep, queue := [], fixedSleep := capSleep t.max_sleep t.sleep,
    maxSleep := t.max_sleep, jrc := t.jrc, base }

def absLinearjitter (base : Num) (t : linearjitter) : BackoffState :=
  { kind := .linearjitter, sleep := t.sleep, queue := [], fixedSleep := capSleep t.max_sleep t.sleep,
    maxSleep := t.max_sleep, jrc := t.jrc, base }

def absExponential (t : exponential) : BackoffState :=
  { kind := .exponential, sleep := t.sleep, queue := [], fixedSleep := capSleep t.max_sleep t.sleep,
    maxSleep := t.max_sleep, jrc := t.jrc, base := t.base }

def absExponentialjitter (t : exponentialjitter) : BackoffState :=
  { kind := .exponentialjitter, sleep := t.sleep, queue := [], fixedSleep := capSleep t.max_sleep t.sleep,
    maxSleep := t.max_sleep, jrc := t.jrc, base := t.base }

/-! ## `__init__` -/

/-- `fixed(sleep=[x, …])`: the translated constructor builds the model's `mkBackoff .fixed … (some (x :: xs))`. -/
theorem translated_fixed_init_list_eq_model (x : Num) (xs : List Num) (ms : Option Num) (jrc sl base : Num)
    (kw : Option (List (String × Num))) :
    (fixed.init (.seq (x :: xs)) ms jrc kw).map (absFixed sl base) =
      .ok (mkBackoff .fixed sl (some (x :: xs)) ms jrc base) := by
  simp [fixed.init, PyRt.deque, seqLast_cons, translated_fixed_min_eq_model, absFixed, mkBackoff,
    bind, Except.bind, pure, Except.pure, Except.map]

/-- `fixed(sleep=s)` for a number `s`: `mkBackoff .fixed s none`. -/
theorem translated_fixed_init_scalar_eq_model (s : Num) (ms : Option Num) (jrc base : Num)
    (kw : Option (List (String × Num))) :
    (fixed.init (.num s) ms jrc kw).map (absFixed s base) = .ok (mkBackoff .fixed s none ms jrc base) := by
  simp [fixed.init, translated_fixed_min_eq_model, absFixed, mkBackoff,
    bind, Except.bind, pure, Except.pure, Except.map]

/-- outside the model's domain: an empty list sleep raises IndexError at construction. -/
theorem translated_fixed_init_empty (ms : Option Num) (jrc : Num) (kw : Option (List (String × Num))) :
    fixed.init (.seq []) ms jrc kw = .error ⟨"IndexError", ""⟩ := by
  simp [fixed.init, PyRt.deque, PyRt.seqLast, bind, Except.bind]

theorem translated_jitter_init_list_eq_model (x : Num) (xs : List Num) (ms : Option Num) (jrc sl base : Num)
    (kw : Option (List (String × Num))) :
    (jitter.init (.seq (x :: xs)) ms jrc kw).map (absJitter sl base) =
      .ok (mkBackoff .jitter sl (some (x :: xs)) ms jrc base) := by
  simp [jitter.init, PyRt.deque, seqLast_cons, translated_jitter_min_eq_model, absJitter, mkBackoff,
    bind, Except.bind, pure, Except.pure, Except.map]

theorem translated_jitter_init_scalar_eq_model (s : Num) (ms : Option Num) (jrc base : Num)
    (kw : Option (List (String × Num))) :
    (jitter.init (.num s) ms jrc kw).map (absJitter s base) = .ok (mkBackoff .jitter s none ms jrc base) := by
  simp [jitter.init, translated_jitter_min_eq_model, absJitter, mkBackoff,
    bind, Except.bind, pure, Except.pure, Except.map]

theorem translated_linear_init_eq_model (s : Num) (ms : Option Num) (jrc base : Num)
    (kw : Option (List (String × Num))) :
    absLinear base (linear.init s ms jrc kw) = mkBackoff .linear s none ms jrc base := by
  simp [linear.init, absLinear, mkBackoff]

theorem translated_linearjitter_init_eq_model (s : Num) (ms : Option Num) (jrc base : Num)
    (kw : Option (List (String × Num))) :
    absLinearjitter base (linearjitter.init s ms jrc kw) = mkBackoff .linearjitter s none ms jrc base := by
  simp [linearjitter.init, absLinearjitter, mkBackoff]

/-- the default arguments of the constructors (`sleep=1, max_sleep=None, jrc=0, kwargs=None`; `fixed` has no
    default sleep): pypyr's retry decorator passes all four explicitly, the defaults matter to direct callers. -/
theorem translated_init_defaults (s : Num) (q : PyRt.NumOrSeq) :
    linear.init = linear.init ⟨1, 0, false⟩ none ⟨0, 0, false⟩ none ∧
    linear.init s = linear.init s none ⟨0, 0, false⟩ none ∧
    linearjitter.init s = linearjitter.init s none ⟨0, 0, false⟩ none ∧
    exponential.init = exponential.init ⟨1, 0, false⟩ none ⟨0, 0, false⟩ none ∧
    exponential.init s = exponential.init s none ⟨0, 0, false⟩ none ∧
    exponentialjitter.init s = exponentialjitter.init s none ⟨0, 0, false⟩ none ∧
    fixed.init q = fixed.init q none ⟨0, 0, false⟩ none ∧
    jitter.init q = jitter.init q none ⟨0, 0, false⟩ none :=
  ⟨rfl, rfl, rfl, rfl, rfl, rfl, rfl, rfl⟩

/-- `kwargs.get('base', 2) if kwargs else 2` on the declared kwargs type. -/
def baseOfKwargs : Option (List (String × Num)) → Num
  | none => ⟨2, 0, false⟩
  | some [] => ⟨2, 0, false⟩
  | some (kv :: rest) => PyRt.dictGetD (kv :: rest) "base" ⟨2, 0, false⟩

/-- `exponential(sleep, max_sleep, jrc, kwargs)`: `mkBackoff .exponential` with the base read from
    kwargs, DEFAULT 2. -/
theorem translated_exponential_init_eq_model (s : Num) (ms : Option Num) (jrc : Num)
    (kw : Option (List (String × Num))) :
    absExponential (exponential.init s ms jrc kw) = mkBackoff .exponential s none ms jrc (baseOfKwargs kw) := by
  rcases kw with _ | ⟨_ | ⟨kv, rest⟩⟩ <;>
    simp [exponential.init, absExponential, mkBackoff, baseOfKwargs, PyRt.truthyList, PyRt.numOfInt]

theorem translated_exponentialjitter_init_eq_model (s : Num) (ms : Option Num) (jrc : Num)
    (kw : Option (List (String × Num))) :
    absExponentialjitter (exponentialjitter.init s ms jrc kw) =
      mkBackoff .exponentialjitter s none ms jrc (baseOfKwargs kw) := by
  rcases kw with _ | ⟨_ | ⟨kv, rest⟩⟩ <;>
    simp [exponentialjitter.init, absExponentialjitter, mkBackoff, baseOfKwargs, PyRt.truthyList, PyRt.numOfInt]

/-- the formatted `backoffArgs` value the retry decorator hands to the class, as the declared kwargs
    type: None, or a dict whose keys are str and whose values are numbers. -/
def kwOfVal : Val → Option (List (String × Num))
  | .dict kvs => some (kvs.filterMap fun kv => match kv.1, kv.2.num? with
      | .str k, some x => some (k, x)
      | _, _ => none)
  | _ => none

/-- domain of `kwOfVal`: str keys, numeric values. -/
def kwOk : Val → Bool
  | .dict kvs => kvs.all fun kv => match kv.1, kv.2.num? with
      | .str _, some _ => true
      | _, _ => false
  | .none => true
  | _ => false

theorem dictGetD_filterMap (kvs : List (Val × Val))
    (h : (kvs.all fun kv => match kv.1, kv.2.num? with | .str _, some _ => true | _, _ => false) = true) :
    PyRt.dictGetD (kvs.filterMap fun kv => match kv.1, kv.2.num? with
        | .str k, some x => some (k, x)
        | _, _ => none) "base" ⟨2, 0, false⟩ = Flow.decBase (.dict kvs) := by
  induction kvs with
  | nil => rfl
  | cons kv rest ih =>
    obtain ⟨k, v⟩ := kv
    simp only [List.all_cons, Bool.and_eq_true] at h
    obtain ⟨h1, h2⟩ := h
    have ih' := ih h2
    cases hv : v.num? with
    | none => cases k <;> simp [hv] at h1
    | some x =>
      cases k with
      | str s =>
        by_cases hs : s = "base"
        · subst hs; simp [List.filterMap, hv, PyRt.dictGetD, Flow.decBase, dictGet?]
        · simp only [Flow.decBase] at ih'
          simp [List.filterMap, hv, PyRt.dictGetD, Flow.decBase, dictGet?, hs, ih']
      | _ => simp [hv] at h1

/-- **the base the translated `exponential.__init__` computes is the model's `decBase`** of the
    `backoffArgs` value (`retry_loop_starts`, `default_base` of Props/C06.lean): default 2. -/
theorem translated_exponential_base_eq_model (argsV : Val) (h : kwOk argsV = true) (s : Num) (ms : Option Num)
    (jrc : Num) :
    (exponential.init s ms jrc (kwOfVal argsV)).base = Flow.decBase argsV ∧
    (exponentialjitter.init s ms jrc (kwOfVal argsV)).base = Flow.decBase argsV := by
  have e1 := translated_exponential_init_eq_model s ms jrc (kwOfVal argsV)
  have e2 := translated_exponentialjitter_init_eq_model s ms jrc (kwOfVal argsV)
  have b1 : (exponential.init s ms jrc (kwOfVal argsV)).base = baseOfKwargs (kwOfVal argsV) := by
    have := congrArg BackoffState.base e1; simpa [absExponential, mkBackoff] using this
  have b2 : (exponentialjitter.init s ms jrc (kwOfVal argsV)).base = baseOfKwargs (kwOfVal argsV) := by
    have := congrArg BackoffState.base e2; simpa [absExponentialjitter, mkBackoff] using this
  rw [b1, b2]
  have key : baseOfKwargs (kwOfVal argsV) = Flow.decBase argsV := by
    cases argsV <;> simp [kwOk] at h <;> try rfl
    rename_i kvs
    have hh := dictGetD_filterMap kvs (by simpa using h)
    rw [← hh]
    simp only [kwOfVal]
    generalize (kvs.filterMap _) = l
    cases l <;> rfl
  exact ⟨key, key⟩

example : kwOk (.dict [(.str "base", .int 3)]) = true ∧
    (exponential.init ⟨1, 0, false⟩ none ⟨0, 0, false⟩ (kwOfVal (.dict [(.str "base", .int 3)]))).base = ⟨3, 0, false⟩ ∧
    (exponential.init ⟨1, 0, false⟩ none ⟨0, 0, false⟩ none).base = ⟨2, 0, false⟩ := by
  refine ⟨?_, ?_, ?_⟩ <;> decide +kernel

/-! ## `__call__` -/

/-- `fixed.__call__`: value, new object and untouched random source are the model's `interval`. -/
theorem translated_fixed_call_eq_model (t : fixed) (n : Nat) (sl base : Num) (rs : List Num) :
    (fixed.call t n).map (fun r => (r.1, absFixed sl base r.2, rs)) = .ok (interval (absFixed sl base t) n rs) := by
  unfold fixed.call
  rcases hq : t.queue with _ | ⟨_ | ⟨x, rest⟩⟩ <;>
    simp [hq, interval, baseInterval, fixedCall, absFixed, BackoffKind.isJitter, PyRt.truthyList, PyRt.popleft,
      translated_fixed_min_eq_model, bind, Except.bind, pure, Except.pure, Except.map]

/-- `jitter.__call__`: consumes exactly one random number. -/
theorem translated_jitter_call_eq_model (t : jitter) (n : Nat) (sl base r : Num) (rs : List Num) :
    (jitter.call t n r).map (fun p => (p.1, absJitter sl base p.2, rs)) =
      .ok (interval (absJitter sl base t) n (r :: rs)) := by
  unfold jitter.call jitter.fixed_call
  rcases hq : t.queue with _ | ⟨_ | ⟨x, rest⟩⟩ <;>
    simp [hq, interval, baseInterval, fixedCall, absJitter, BackoffKind.isJitter, PyRt.truthyList, PyRt.popleft,
      translated_jitter_min_eq_model, translated_jitter_randomize_eq_model,
      bind, Except.bind, pure, Except.pure, Except.map]

/-- `linear.__call__`: `min(n * sleep, max_sleep)`, object unchanged. -/
theorem translated_linear_call_eq_model (t : linear) (n : Nat) (base : Num) (rs : List Num) :
    interval (absLinear base t) n rs = (linear.call t n, absLinear base t, rs) := by
  simp [interval, baseInterval, absLinear, BackoffKind.isJitter, linear.call, translated_linear_min_eq_model,
    natToNum_eq, PyRt.mul, mul_ofNat_comm]

theorem translated_linearjitter_call_eq_model (t : linearjitter) (n : Nat) (base r : Num) (rs : List Num) :
    interval (absLinearjitter base t) n (r :: rs) = (linearjitter.call t n r, absLinearjitter base t, rs) := by
  simp [interval, baseInterval, absLinearjitter, BackoffKind.isJitter, linearjitter.call,
    linearjitter.linear_call, translated_linearjitter_min_eq_model, translated_linearjitter_randomize_eq_model,
    natToNum_eq, PyRt.mul, mul_ofNat_comm]

/-- `exponential.__call__`: `min(base ** n * sleep, max_sleep)`. -/
theorem translated_exponential_call_eq_model (t : exponential) (n : Nat) (rs : List Num) :
    interval (absExponential t) n rs = (exponential.call t n, absExponential t, rs) := by
  simp [interval, baseInterval, absExponential, BackoffKind.isJitter, exponential.call,
    translated_exponential_min_eq_model, numPow_eq, PyRt.mul, mul_pow_comm]

theorem translated_exponentialjitter_call_eq_model (t : exponentialjitter) (n : Nat) (r : Num) (rs : List Num) :
    interval (absExponentialjitter t) n (r :: rs) =
      (exponentialjitter.call t n r, absExponentialjitter t, rs) := by
  simp [interval, baseInterval, absExponentialjitter, BackoffKind.isJitter, exponentialjitter.call,
    exponentialjitter.exponential_call, translated_exponentialjitter_min_eq_model,
    translated_exponentialjitter_randomize_eq_model, numPow_eq, PyRt.mul, mul_pow_comm]

/-! ## whole schedules: calling the translated object k, k+1, … is the model's `schedule` -/

/-- the values of `m` successive calls `obj(k), obj(k+1), …` of a translated `fixed` object. -/
def fixedRun (t : fixed) (k : Nat) : Nat → Except Exc (List Num)
  | 0 => .ok []
  | m + 1 => match fixed.call t k with
    | .error e => .error e
    | .ok r => (fixedRun r.2 (k + 1) m).map (r.1 :: ·)

theorem translated_fixed_schedule (m : Nat) (t : fixed) (k : Nat) (sl base : Num) (rs : List Num) :
    fixedRun t k m = .ok (schedule (absFixed sl base t) rs k m) := by
  induction m generalizing t k with
  | zero => rfl
  | succ m ih =>
    have h := translated_fixed_call_eq_model t k sl base rs
    cases hc : fixed.call t k with
    | error e => rw [hc] at h; simp [Except.map] at h
    | ok r =>
      rw [hc] at h
      simp only [Except.map, Except.ok.injEq] at h
      simp only [fixedRun, hc, schedule, ← h, ih, Except.map]

def linearRun (t : linear) (k : Nat) : Nat → List Num
  | 0 => []
  | m + 1 => linear.call t k :: linearRun t (k + 1) m

theorem translated_linear_schedule (m : Nat) (t : linear) (k : Nat) (base : Num) (rs : List Num) :
    linearRun t k m = schedule (absLinear base t) rs k m := by
  induction m generalizing k with
  | zero => rfl
  | succ m ih => simp only [linearRun, schedule, translated_linear_call_eq_model, ih]

def exponentialRun (t : exponential) (k : Nat) : Nat → List Num
  | 0 => []
  | m + 1 => exponential.call t k :: exponentialRun t (k + 1) m

theorem translated_exponential_schedule (m : Nat) (t : exponential) (k : Nat) (rs : List Num) :
    exponentialRun t k m = schedule (absExponential t) rs k m := by
  induction m generalizing k with
  | zero => rfl
  | succ m ih => simp only [exponentialRun, schedule, translated_exponential_call_eq_model, ih]

/-! ## the name table -/

/-- `builtin_backoffs` maps exactly the six strategy names the model knows, each to the class of the
    same name (the class whose translation the theorems above are about). -/
theorem translated_builtin_backoffs_eq_model :
    builtin_backoffs = [("fixed", "fixed"), ("jitter", "jitter"), ("linear", "linear"),
      ("linearjitter", "linearjitter"), ("exponential", "exponential"),
      ("exponentialjitter", "exponentialjitter")] ∧
    builtin_backoffs.all (fun p => p.1 == p.2 && (BackoffKind.ofName? p.1).isSome) = true := by
  decide +kernel

def exFixed : fixed :=
  { sleep := .seq [⟨3, 0, false⟩, ⟨5, 0, false⟩]
    max_sleep := some ⟨4, 0, false⟩
    jrc := ⟨0, 0, false⟩
    kwargs := none
    queue := some [⟨3, 0, false⟩, ⟨5, 0, false⟩]
    fixed_sleep := ⟨4, 0, false⟩ }

example : fixedRun exFixed 1 3 = .ok [⟨3, 0, false⟩, ⟨4, 0, false⟩, ⟨4, 0, false⟩] := by decide +kernel

end Pypyr.TranslatedC06
