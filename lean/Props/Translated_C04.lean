/-
  Translated_C04 — the Lean definitions GENERATED from `pypyr/utils/types.py` by
  harness/translate.py (Generated/TranslatedTypes.lean, regenerated on every check) are equal, on
  every input, to the hand-written model definitions `castStrToBool` / `castToBool`
  (PypyrModel/Val.lean) that `castToBool_spec`, `fmtAsBool_spec` and the run/skip/swallow theorems
  of Props/C04.lean are about.

  An edit of `cast_to_bool` / `cast_str_to_bool` in the tree under test regenerates different Lean
  code: a harmless rewrite keeps these proofs going through, a semantic change breaks them.

  Domain: `obj` any modelled value kind (`Val`), `input_string` any `String`. Outside: `str.lower()`
  is ASCII-only in PyRt (`PyRt.strLower`), as in the model (`lowerAscii`); no non-ASCII code point
  lower-cases to a letter of 'true' or to a digit or '.', so the result is the same for every str.
-/
import Generated.TranslatedTypes
import PypyrModel.Val

namespace Pypyr.TranslatedC04
open Pypyr Pypyr.Translated.Types

/-- the translated `cast_str_to_bool` is the model's `castStrToBool`, for every string. -/
theorem translated_cast_str_to_bool_eq_model (s : String) :
    cast_str_to_bool s = castStrToBool s := by
  simp only [cast_str_to_bool, castStrToBool, PyRt.inList, PyRt.strLower, lowerAscii, List.contains,
    List.elem]
  cases (String.map Char.toLower s == "true") <;> cases (String.map Char.toLower s == "1") <;>
    cases (String.map Char.toLower s == "1.0") <;> rfl

/-- the translated `cast_to_bool` is the model's `castToBool`, for every value. -/
theorem translated_cast_to_bool_eq_model (v : Val) : cast_to_bool v = castToBool v := by
  cases v <;> simp [cast_to_bool, castToBool, translated_cast_str_to_bool_eq_model]

example : cast_to_bool (.str "TRUE") = true ∧ cast_to_bool (.str "yes") = false ∧
    cast_to_bool (.list []) = false ∧ cast_to_bool (.int 2) = true := by
  refine ⟨?_, ?_, ?_, ?_⟩ <;> decide +kernel

end Pypyr.TranslatedC04
