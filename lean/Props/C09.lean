/-
  C09 — formatting is pure and structure-preserving.

  Tree level: theorems about `Pypyr.fmtIter` / `fmtVal` (`PypyrModel/Fmt.lean`), for ALL values,
  contexts and fuel. Heap level: theorems about `FmtHeap.fmtH` / `fmtHeap`
  (`PypyrModel/FmtHeap.lean`), where identity and mutation are observable.
  Property theorems only; helper lemmas live in Props/Lemmas/C09_*.lean.
-/
import PypyrModel.Fmt
import PypyrModel.FmtHeap
import Props.Lemmas.C09_Tree
import Props.Lemmas.C09_Heap

namespace Pypyr.C09
open Pypyr Pypyr.FmtHeap

/-! ## Tree level -/

/-- **Kind preservation.** Whatever `_get_formatted_iterable` returns for `v` has the container
    skeleton of `v`: the same constructor at every container node, children formatted element-wise,
    non-string leaves equal (relation `Shaped`, `Props/Lemmas/C09_Tree.lean`). For every fuel,
    context, recursion flag and value. -/
theorem fmt_kind_preserved :
    ∀ (fuel : Nat) (ctx : Ctx) (isRec : Bool) (v r : Val),
      fmtIter fuel ctx isRec v = .ok r → Shaped v r := by
  intro fuel
  induction fuel with
  | zero => intro ctx isRec v r h; simp [fmtIter] at h
  | succ n ih =>
    intro ctx isRec v r h
    have hf : ∀ x y, fmtIter n ctx isRec x = .ok y → Shaped x y := fun x y => ih ctx isRec x y
    cases v with
    | list xs =>
      simp only [fmtIter] at h
      cases hm : mapE (fmtIter n ctx isRec) xs with
      | error e => rw [hm] at h; cases h
      | ok ys => rw [hm] at h; cases h; exact ⟨ys, rfl, shapedL_of_mapE hf hm⟩
    | tuple xs =>
      simp only [fmtIter] at h
      cases hm : mapE (fmtIter n ctx isRec) xs with
      | error e => rw [hm] at h; cases h
      | ok ys => rw [hm] at h; cases h; exact ⟨ys, rfl, shapedL_of_mapE hf hm⟩
    | set xs =>
      simp only [fmtIter] at h
      cases hm : mapE (fmtIter n ctx isRec) xs with
      | error e => rw [hm] at h; cases h
      | ok ys => rw [hm] at h; cases h; exact ⟨ys, rfl, shapedL_of_mapE hf hm⟩
    | dict kvs =>
      simp only [fmtIter] at h
      split at h
      · cases h
      · rename_i kvs' hm
        cases h
        exact ⟨kvs', rfl, shapedP_of_mapE hf hm⟩
    | str s => simp [Shaped]
    | sic s => simp [Shaped]
    | py e => simp [Shaped]
    | jsonify w => simp [Shaped]
    | none => simp only [fmtIter] at h; cases h; simp [Shaped]
    | bool b => simp only [fmtIter] at h; cases h; simp [Shaped]
    | int i => simp only [fmtIter] at h; cases h; simp [Shaped]
    | flt a b => simp only [fmtIter] at h; cases h; simp [Shaped]
    | bytes s => simp only [fmtIter] at h; cases h; simp [Shaped]
    | obj i => simp only [fmtIter] at h; cases h; simp [Shaped]

example : fmtIter 5 [("a", .int 7)] false (.list [.str "{a}", .tuple [.none, .str "x{a}"]])
    = .ok (.list [.int 7, .tuple [.none, .str "x7"]]) := by decide +kernel

/-- Lists: a list comes back as a list of the same length whose members are the formatted members,
    position by position. -/
theorem fmt_list_elementwise (fuel : Nat) (ctx : Ctx) (isRec : Bool) (xs : List Val) (r : Val)
    (h : fmtIter (fuel + 1) ctx isRec (.list xs) = .ok r) :
    ∃ ys, r = .list ys ∧ ys.length = xs.length ∧
      All₂ (fun x y => fmtIter fuel ctx isRec x = .ok y) xs ys := by
  simp only [fmtIter] at h
  cases hm : mapE (fmtIter fuel ctx isRec) xs with
  | error e => rw [hm] at h; cases h
  | ok ys => rw [hm] at h; cases h; exact ⟨ys, rfl, mapE_ok_length hm, mapE_ok_forall₂ hm⟩

/-- Tuples: same as lists. -/
theorem fmt_tuple_elementwise (fuel : Nat) (ctx : Ctx) (isRec : Bool) (xs : List Val) (r : Val)
    (h : fmtIter (fuel + 1) ctx isRec (.tuple xs) = .ok r) :
    ∃ ys, r = .tuple ys ∧ ys.length = xs.length ∧
      All₂ (fun x y => fmtIter fuel ctx isRec x = .ok y) xs ys := by
  simp only [fmtIter] at h
  cases hm : mapE (fmtIter fuel ctx isRec) xs with
  | error e => rw [hm] at h; cases h
  | ok ys => rw [hm] at h; cases h; exact ⟨ys, rfl, mapE_ok_length hm, mapE_ok_forall₂ hm⟩

/-- Dicts: a dict comes back as a dict built from the element-wise formatted (key, value) pairs; it
    has at most as many items, and exactly as many — the pairs themselves, in order — when the
    formatted keys are pairwise distinct. -/
theorem fmt_dict_size (fuel : Nat) (ctx : Ctx) (isRec : Bool) (kvs : List (Val × Val)) (r : Val)
    (h : fmtIter (fuel + 1) ctx isRec (.dict kvs) = .ok r) :
    ∃ kvs', kvs'.length = kvs.length ∧
      All₂ (fun kv kv' => fmtIter fuel ctx isRec kv.1 = .ok kv'.1 ∧ fmtIter fuel ctx isRec kv.2 = .ok kv'.2) kvs kvs' ∧
      r = .dict (rebuildDict kvs') ∧ (rebuildDict kvs').length ≤ kvs.length ∧
      ((kvs'.map (·.1)).Nodup → r = .dict kvs') := by
  simp only [fmtIter] at h
  split at h
  · cases h
  · rename_i kvs' hm
    cases h
    have hlen := mapE_ok_length hm
    refine ⟨kvs', hlen, ?_, rfl, ?_, ?_⟩
    · have := mapE_ok_forall₂ hm
      clear hm hlen
      induction this with
      | nil => exact All₂.nil
      | cons hxy _ ih =>
        refine All₂.cons ?_ ih
        split at hxy
        · cases hxy
        · rename_i k hk
          split at hxy
          · cases hxy
          · rename_i w hw
            cases hxy
            exact ⟨hk, hw⟩
    · have := rebuildDict_length_le kvs'; omega
    · intro hnd; rw [rebuildDict_of_nodup kvs' hnd]

/-- Sets: a set comes back as the set of its formatted members; at most as many members, exactly
    the formatted members when these are pairwise distinct. -/
theorem fmt_set_size (fuel : Nat) (ctx : Ctx) (isRec : Bool) (xs : List Val) (r : Val)
    (h : fmtIter (fuel + 1) ctx isRec (.set xs) = .ok r) :
    ∃ ys, ys.length = xs.length ∧ All₂ (fun x y => fmtIter fuel ctx isRec x = .ok y) xs ys ∧
      r = .set (setOfList ys) ∧ (setOfList ys).length ≤ xs.length ∧ (ys.Nodup → r = .set ys) := by
  simp only [fmtIter] at h
  cases hm : mapE (fmtIter fuel ctx isRec) xs with
  | error e => rw [hm] at h; cases h
  | ok ys =>
    rw [hm] at h; cases h
    have hlen := mapE_ok_length hm
    refine ⟨ys, hlen, mapE_ok_forall₂ hm, rfl, ?_, ?_⟩
    · have := setOfList_length_le ys; omega
    · intro hnd; simp only [setOfList_of_nodup ys hnd]

example : fmtIter 5 [("a", .str "x")] false (.dict [(.str "{a}", .int 1), (.str "x", .int 2), (.str "y", .int 3)])
    = .ok (.dict [(.str "x", .int 2), (.str "y", .int 3)]) := by decide +kernel

/-- **Non-string leaves come through equal**: None, booleans, numbers, bytes and arbitrary objects
    are returned as they are, whatever the context (given any fuel at all). -/
theorem fmt_nonstring_leaf_id (fuel : Nat) (ctx : Ctx) (isRec : Bool) (v : Val)
    (h : isLeafVal v = true) : fmtIter (fuel + 1) ctx isRec v = .ok v := by
  cases v <;> simp [isLeafVal] at h <;> simp [fmtIter]

example : isLeafVal (.obj 3) = true ∧ isLeafVal (.bytes "00") = true ∧ isLeafVal (.flt 1 1) = true := by
  decide

/-- **Brace-free values are returned equal to the input** (partial-correctness form, every fuel):
    if `v` has no `{`/`}` in any string, no special tag, and satisfies the representation invariant
    of dicts and sets (`wfVal`: keys / members pairwise distinct — what a Python dict / set always
    satisfies), then whatever formatting returns is `v`. -/
theorem fmt_bracefree_id :
    ∀ (fuel : Nat) (ctx : Ctx) (isRec : Bool) (v r : Val),
      braceFree v = true → wfVal v = true → fmtIter fuel ctx isRec v = .ok r → r = v := by
  intro fuel
  induction fuel with
  | zero => intro ctx isRec v r _ _ h; simp [fmtIter] at h
  | succ n ih =>
    intro ctx isRec v r hb hw h
    cases v with
    | list xs =>
      simp only [braceFree] at hb; simp only [wfVal] at hw
      simp only [fmtIter] at h
      cases hm : mapE (fmtIter n ctx isRec) xs with
      | error e => rw [hm] at h; cases h
      | ok ys =>
        rw [hm] at h; cases h
        have := mapE_ok_eq_self (fun x hx y hy =>
          ih ctx isRec x y ((braceFreeL_iff xs).mp hb x hx) ((wfValL_iff xs).mp hw x hx) hy) hm
        simp [this]
    | tuple xs =>
      simp only [braceFree] at hb; simp only [wfVal] at hw
      simp only [fmtIter] at h
      cases hm : mapE (fmtIter n ctx isRec) xs with
      | error e => rw [hm] at h; cases h
      | ok ys =>
        rw [hm] at h; cases h
        have := mapE_ok_eq_self (fun x hx y hy =>
          ih ctx isRec x y ((braceFreeL_iff xs).mp hb x hx) ((wfValL_iff xs).mp hw x hx) hy) hm
        simp [this]
    | set xs =>
      simp only [braceFree] at hb
      simp only [wfVal, Bool.and_eq_true] at hw
      simp only [fmtIter] at h
      cases hm : mapE (fmtIter n ctx isRec) xs with
      | error e => rw [hm] at h; cases h
      | ok ys =>
        rw [hm] at h; cases h
        have := mapE_ok_eq_self (fun x hx y hy =>
          ih ctx isRec x y ((braceFreeL_iff xs).mp hb x hx) ((wfValL_iff xs).mp hw.2 x hx) hy) hm
        subst this
        simp [setOfList_of_nodup ys ((nodupB_iff ys).mp hw.1)]
    | dict kvs =>
      simp only [braceFree] at hb
      simp only [wfVal, Bool.and_eq_true] at hw
      simp only [fmtIter] at h
      split at h
      · cases h
      · rename_i kvs' hm
        cases h
        have hself : kvs' = kvs := by
          refine mapE_ok_eq_self (fun kv hkv kv' hkv' => ?_) hm
          have hbk := (braceFreeP_iff kvs).mp hb kv hkv
          have hwk := (wfValP_iff kvs).mp hw.2 kv hkv
          split at hkv'
          · cases hkv'
          · rename_i k hk
            split at hkv'
            · cases hkv'
            · rename_i w hw'
              cases hkv'
              rw [ih ctx isRec kv.1 k hbk.1 hwk.1 hk, ih ctx isRec kv.2 w hbk.2 hwk.2 hw']
        subst hself
        have hnd : (kvs'.map (·.1)).Nodup := by
          rw [← keysOf_eq_map]; exact (nodupB_iff _).mp hw.1
        simp [rebuildDict_of_nodup kvs' hnd]
    | str s =>
      simp only [braceFree] at hb
      simp only [fmtIter] at h
      cases n with
      | zero => simp [fmtKeepType] at h
      | succ m => rw [fmtKeepType_braceFree m ctx isRec s hb] at h; cases h; rfl
    | sic s => simp [braceFree] at hb
    | py e => simp [braceFree] at hb
    | jsonify w => simp [braceFree] at hb
    | none => simp only [fmtIter] at h; cases h; rfl
    | bool b => simp only [fmtIter] at h; cases h; rfl
    | int i => simp only [fmtIter] at h; cases h; rfl
    | flt a b => simp only [fmtIter] at h; cases h; rfl
    | bytes s => simp only [fmtIter] at h; cases h; rfl
    | obj i => simp only [fmtIter] at h; cases h; rfl

/-- **Brace-free values are returned equal to the input** (total form): with fuel at least the
    nesting depth `need v`, formatting succeeds and returns `v` itself — in particular no context
    lookup can fail. -/
theorem fmt_bracefree_total :
    ∀ (fuel : Nat) (ctx : Ctx) (isRec : Bool) (v : Val),
      braceFree v = true → wfVal v = true → need v ≤ fuel → fmtIter fuel ctx isRec v = .ok v := by
  intro fuel
  induction fuel with
  | zero =>
    intro ctx isRec v _ _ hn
    cases v <;> simp [need] at hn
  | succ n ih =>
    intro ctx isRec v hb hw hn
    cases v with
    | list xs =>
      simp only [braceFree] at hb; simp only [wfVal] at hw; simp only [need] at hn
      have : mapE (fmtIter n ctx isRec) xs = .ok xs := mapE_id (fun x hx =>
        ih ctx isRec x ((braceFreeL_iff xs).mp hb x hx) ((wfValL_iff xs).mp hw x hx)
          (by have := need_le_of_mem hx; omega))
      simp [fmtIter, this, Except.map]
    | tuple xs =>
      simp only [braceFree] at hb; simp only [wfVal] at hw; simp only [need] at hn
      have : mapE (fmtIter n ctx isRec) xs = .ok xs := mapE_id (fun x hx =>
        ih ctx isRec x ((braceFreeL_iff xs).mp hb x hx) ((wfValL_iff xs).mp hw x hx)
          (by have := need_le_of_mem hx; omega))
      simp [fmtIter, this, Except.map]
    | set xs =>
      simp only [braceFree] at hb; simp only [wfVal, Bool.and_eq_true] at hw; simp only [need] at hn
      have : mapE (fmtIter n ctx isRec) xs = .ok xs := mapE_id (fun x hx =>
        ih ctx isRec x ((braceFreeL_iff xs).mp hb x hx) ((wfValL_iff xs).mp hw.2 x hx)
          (by have := need_le_of_mem hx; omega))
      simp [fmtIter, this, Except.map, setOfList_of_nodup xs ((nodupB_iff xs).mp hw.1)]
    | dict kvs =>
      simp only [braceFree] at hb; simp only [wfVal, Bool.and_eq_true] at hw; simp only [need] at hn
      have hnd : (kvs.map (·.1)).Nodup := by
        rw [← keysOf_eq_map]; exact (nodupB_iff _).mp hw.1
      simp only [fmtIter]
      rw [mapE_id (xs := kvs)]
      · simp only [rebuildDict_of_nodup kvs hnd]
      · intro kv hkv
        have hbk := (braceFreeP_iff kvs).mp hb kv hkv
        have hwk := (wfValP_iff kvs).mp hw.2 kv hkv
        have hnk := need_le_of_memP hkv
        rw [ih ctx isRec kv.1 hbk.1 hwk.1 (by omega), ih ctx isRec kv.2 hbk.2 hwk.2 (by omega)]
    | str s =>
      simp only [braceFree] at hb; simp only [need] at hn
      cases n with
      | zero => omega
      | succ m => simp only [fmtIter]; exact fmtKeepType_braceFree m ctx isRec s hb
    | sic s => simp [braceFree] at hb
    | py e => simp [braceFree] at hb
    | jsonify w => simp [braceFree] at hb
    | none => simp [fmtIter]
    | bool b => simp [fmtIter]
    | int i => simp [fmtIter]
    | flt a b => simp [fmtIter]
    | bytes s => simp [fmtIter]
    | obj i => simp [fmtIter]

example : braceFree (.dict [(.str "k", .list [.str "plain", .int 1, .set [.none]])]) = true ∧
    wfVal (.dict [(.str "k", .list [.str "plain", .int 1, .set [.none]])]) = true ∧
    need (.dict [(.str "k", .list [.str "plain", .int 1, .set [.none]])]) = 4 := by decide +kernel

/-- **Idempotence on brace-free results**: if formatting `v` gave `r` and `r` is brace-free (and a
    well-formed value), then formatting `r` again — against any context, with any fuel that lets it
    finish — gives `r`; and with fuel `need r` it does finish. -/
theorem fmt_idempotent_on_bracefree_result (fuel fuel' : Nat) (ctx ctx' : Ctx) (v r : Val)
    (_h : fmtVal fuel ctx v = .ok r) (hb : braceFree r = true) (hw : wfVal r = true) :
    (∀ r', fmtVal fuel' ctx' r = .ok r' → r' = r) ∧ (need r ≤ fuel' → fmtVal fuel' ctx' r = .ok r) :=
  ⟨fun r' h' => fmt_bracefree_id fuel' ctx' false r r' hb hw h',
   fun hn => fmt_bracefree_total fuel' ctx' false r hb hw hn⟩

example : fmtVal 6 [("a", .list [.str "x", .int 1])] (.str "{a}") = .ok (.list [.str "x", .int 1]) ∧
    braceFree (.list [.str "x", .int 1]) = true := by decide +kernel

/-! ## Heap level: identity, mutation and sharing are observable

  `FmtHeap.fmtHeap fuel ctx h r` formats the object at address `r` of heap `h` against the context
  `ctx` (string keys bound to addresses of `h`) and returns the result address and the heap
  afterwards. The input value and every context value are objects of `h`. -/

/-- **Purity (`fmtHeap_alloc_only`).** A formatting call only allocates: the heap afterwards is the
    heap before followed by new cells. So every pre-existing cell — every object of the value being
    formatted and of the context — is unchanged at its address, and the tree value read at any
    pre-existing address (`readVal`, the deep value) is the same before and after. For all heaps,
    contexts, roots and fuel. -/
theorem fmtHeap_alloc_only (fuel : Nat) (ctx : HCtx) (h h' : Heap) (r r' : Ref)
    (hf : fmtHeap fuel ctx h r = .ok (r', h')) :
    (∃ ext, h' = h ++ ext) ∧
    (∀ (i : Nat) (c : Cell), h[i]? = some c → h'[i]? = some c) ∧
    (∀ (f : Nat) (x : Ref) (v : Val), readVal f h x = some v → readVal f h' x = some v) := by
  unfold fmtHeap at hf
  split at hf
  · cases hf
  · rename_i r1 st hst
    cases hf
    have e : Ext h st.heap := (fmtH_good hst).ext
    refine ⟨?_, fun i c hc => e.get hc, fun f x v hv => readVal_ext e f x v hv⟩
    obtain ⟨ext, he, _⟩ := e
    exact ⟨ext, he⟩

/-- The same for a call made in the middle of a traversal, with any memo. -/
theorem fmtH_alloc_only (fuel : Nat) (ctx : HCtx) (isRec : Bool) (r r' : Ref) (st st' : St)
    (hf : fmtH fuel ctx isRec r st = .ok (r', st')) :
    (∃ ext, st'.heap = st.heap ++ ext) ∧
    (∀ (i : Nat) (c : Cell), st.heap[i]? = some c → st'.heap[i]? = some c) := by
  have e : Ext st.heap st'.heap := (fmtH_good hf).ext
  refine ⟨?_, fun i c hc => e.get hc⟩
  obtain ⟨ext, he, _⟩ := e
  exact ⟨ext, he⟩

/-- Corollary in the property's words: the value being formatted and every context value are
    deep-equal before and after the call. -/
theorem fmtHeap_input_and_context_unchanged (fuel : Nat) (ctx : HCtx) (h h' : Heap) (r r' : Ref)
    (hf : fmtHeap fuel ctx h r = .ok (r', h')) :
    (∀ v, deepVal h r = some v → readVal (h.length + 1) h' r = some v) ∧
    (∀ k x v, HCtx.get? ctx k = some x → deepVal h x = some v → readVal (h.length + 1) h' x = some v) :=
  ⟨fun v hv => (fmtHeap_alloc_only fuel ctx h h' r r' hf).2.2 _ r v hv,
   fun _ x v _ hv => (fmtHeap_alloc_only fuel ctx h h' r r' hf).2.2 _ x v hv⟩

/-- The formatter never allocates a non-string leaf (nor a special tag): every new cell is a string
    or a container. Hence every non-string leaf reachable in the result is a pre-existing object. -/
theorem fmtHeap_allocates_no_leaf (fuel : Nat) (ctx : HCtx) (h h' : Heap) (r r' : Ref)
    (hf : fmtHeap fuel ctx h r = .ok (r', h')) :
    ∀ (i : Nat) (c : Cell), h.length ≤ i → h'[i]? = some c → isAllocCell c = true := by
  unfold fmtHeap at hf
  split at hf
  · cases hf
  · rename_i r1 st hst
    cases hf
    exact fun i c hi hc => (fmtH_good hst).ext.new_isAlloc hi hc

/-- **Leaf identity (`fmtHeap_leaf_identity`).** Formatting a non-string leaf — None, bool, number,
    bytes, arbitrary object (`Cell.leaf`) or the MUTABLE binary leaf bytearray (`Cell.mbytes`) —
    returns the same reference and leaves the heap as it is. -/
theorem fmtHeap_leaf_identity (fuel : Nat) (ctx : HCtx) (h h' : Heap) (r r' : Ref) (c : Cell)
    (hc : h[r]? = some c) (hl : isLeafCell c = true)
    (hf : fmtHeap fuel ctx h r = .ok (r', h')) : r' = r ∧ h' = h := by
  unfold fmtHeap at hf
  split at hf
  · cases hf
  · rename_i r1 st hst
    cases hf
    have hn : MemoNoLeaf { heap := h, memo := [] } := by intro x d hx; simp [memoGet] at hx
    have := fmtH_leaf hn hc hl hst
    exact ⟨this.1, by rw [this.2]⟩

/-- The two binary leaves spelled out: `bytes` and `bytearray` objects come back as the very same
    object (a bytearray is mutable: an equal but detached copy would be observable by a later write). -/
theorem fmtHeap_binary_identity (fuel : Nat) (ctx : HCtx) (h h' : Heap) (r r' : Ref) (b : String)
    (hc : h[r]? = some (.leaf (.bytes b)) ∨ h[r]? = some (.mbytes b))
    (hf : fmtHeap fuel ctx h r = .ok (r', h')) : r' = r ∧ h' = h := by
  rcases hc with hc | hc
  · exact fmtHeap_leaf_identity fuel ctx h h' r r' _ hc rfl hf
  · exact fmtHeap_leaf_identity fuel ctx h h' r r' _ hc rfl hf

example : (match fmtHeap 4 [] [.mbytes "7b617d", .leaf (.bytes "7b617d"), .list 0 [0, 1, 0]] 2 with
    | .ok (r, h) => r == 3 && (match h[3]? with | some (Cell.list 0 [0, 1, 0]) => true | _ => false)
    | .error _ => false) = true := by decide +kernel

/-- The empty memo of a top-level call has no leaf keys, and no call ever adds one. -/
theorem memoNoLeaf_invariant (fuel : Nat) (ctx : HCtx) (isRec : Bool) (r r' : Ref) (st st' : St)
    (hf : fmtH fuel ctx isRec r st = .ok (r', st')) :
    MemoNoLeaf { heap := st.heap, memo := [] } ∧ (MemoNoLeaf st → MemoNoLeaf st') :=
  ⟨by intro x d hx; simp [memoGet] at hx, (fmtH_good hf).noLeaf⟩

/-- **List nodes (leaf identity and sharing at every node).** Formatting a list object that the
    memo does not yet answer for — at the top of a call or anywhere inside a traversal — yields a
    NEW list cell of the same class tag and length; a member that is a non-string leaf (immutable
    leaf or bytearray: `isLeafCell`) is the same reference in the result (`fmtHeap_leaf_identity` at every node); a container member that
    occurs at two positions is formatted once and the result holds one shared reference at both
    positions (`fmtHeap_sharing`: the id-keyed memo). -/
theorem fmtH_list_node (n : Nat) (ctx : HCtx) (isRec : Bool) (r r' : Nat) (st st' : St)
    (tag : Nat) (rs : List Ref)
    (hn : MemoNoLeaf st) (hmiss : memoHit st r = none) (hc : st.heap[r]? = some (.list tag rs))
    (hf : fmtH (n + 1) ctx isRec r st = .ok (r', st')) :
    ∃ rs', st'.heap[r']? = some (.list tag rs') ∧ st.heap.length ≤ r' ∧ rs'.length = rs.length ∧
      All₂ (fun x y => ∀ c, st.heap[x]? = some c → isLeafCell c = true → y = x) rs rs' ∧
      (∀ (i j x : Nat), i < j → rs[i]? = some x → rs[j]? = some x → isContainerAt st.heap x = true →
        rs'[i]? = rs'[j]?) := by
  unfold fmtH at hf
  rw [hmiss] at hf
  simp only [hc] at hf
  split at hf
  · cases hf
  · rename_i rs' st1 hm
    simp only [alloc] at hf
    cases hf
    have ⟨hleaf, g⟩ := mapS_fmtH_leaves hn hm
    refine ⟨rs', by simp, g.ext.length_le, mapS_length _ _ _ _ hm, hleaf, ?_⟩
    intro i j x hij hi hj hx
    exact mapS_fmtH_shared rs st rs' st1 hm i j x hij hi hj hx

/-- Tuple nodes: as list nodes. -/
theorem fmtH_tuple_node (n : Nat) (ctx : HCtx) (isRec : Bool) (r r' : Nat) (st st' : St)
    (tag : Nat) (rs : List Ref)
    (hn : MemoNoLeaf st) (hmiss : memoHit st r = none) (hc : st.heap[r]? = some (.tuple tag rs))
    (hf : fmtH (n + 1) ctx isRec r st = .ok (r', st')) :
    ∃ rs', st'.heap[r']? = some (.tuple tag rs') ∧ st.heap.length ≤ r' ∧ rs'.length = rs.length ∧
      All₂ (fun x y => ∀ c, st.heap[x]? = some c → isLeafCell c = true → y = x) rs rs' ∧
      (∀ (i j x : Nat), i < j → rs[i]? = some x → rs[j]? = some x → isContainerAt st.heap x = true →
        rs'[i]? = rs'[j]?) := by
  unfold fmtH at hf
  rw [hmiss] at hf
  simp only [hc] at hf
  split at hf
  · cases hf
  · rename_i rs' st1 hm
    simp only [alloc] at hf
    cases hf
    have ⟨hleaf, g⟩ := mapS_fmtH_leaves hn hm
    refine ⟨rs', by simp, g.ext.length_le, mapS_length _ _ _ _ hm, hleaf, ?_⟩
    intro i j x hij hi hj hx
    exact mapS_fmtH_shared rs st rs' st1 hm i j x hij hi hj hx

/-- **Sharing (`fmtHeap_sharing`), general form.** Once a container object has been formatted the
    memo answers for it (`fmtH_records`), the answer survives every later call of the traversal
    (`Good.stable`), and a later occurrence returns that very reference without touching the
    state. -/
theorem fmtHeap_sharing (fuel n : Nat) (ctx : HCtx) (isRec : Bool) (x y : Nat) (st st1 : St)
    (hx : isContainerAt st.heap x = true) (h1 : fmtH fuel ctx isRec x st = .ok (y, st1)) :
    memoHit st1 x = some y ∧
    (∀ (z z' : Ref) (st2 : St) (f : Nat) (c : HCtx) (b : Bool),
        fmtH f c b z st1 = .ok (z', st2) →
        memoHit st2 x = some y ∧ fmtH (n + 1) ctx isRec x st2 = .ok (y, st2)) := by
  have hrec := fmtH_records hx h1
  refine ⟨hrec, ?_⟩
  intro z z' st2 f c b h2
  have := (fmtH_good h2).stable x y hrec
  exact ⟨this, fmtH_hit this⟩

/-- Top-level corollary for a list value: new list, leaves by reference, shared members shared. -/
theorem fmtHeap_list (n : Nat) (ctx : HCtx) (h h' : Heap) (r r' : Nat) (tag : Nat) (rs : List Ref)
    (hc : h[r]? = some (.list tag rs)) (hf : fmtHeap (n + 1) ctx h r = .ok (r', h')) :
    ∃ rs', h'[r']? = some (.list tag rs') ∧ h.length ≤ r' ∧ rs'.length = rs.length ∧
      All₂ (fun x y => ∀ c, h[x]? = some c → isLeafCell c = true → y = x) rs rs' ∧
      (∀ (i j x : Nat), i < j → rs[i]? = some x → rs[j]? = some x → isContainerAt h x = true →
        rs'[i]? = rs'[j]?) := by
  unfold fmtHeap at hf
  split at hf
  · cases hf
  · rename_i r1 st hst
    cases hf
    exact fmtH_list_node n ctx false r _ { heap := h, memo := [] } st tag rs
      (by intro x d hx; simp [memoGet] at hx) (by simp [memoHit, memoGet]) hc hst

/- A concrete heap: cell 0 = 'v', 1 = Opaque object, 2 = '{a}', 3 = [2, 1], 4 = [3, 3, 1].
   Context a -> 0. Formatting cell 4 gives a new list [n, n, 1] with n a new list ['v'-object, 1]:
   the inner list is formatted once and shared, the opaque object is the same reference, the
   five old cells are untouched. -/
example :
    (match fmtHeap 6 [("a", 0)]
        [.str "v", .leaf (.obj 7), .str "{a}", .list 0 [2, 1], .list 0 [3, 3, 1]] 4 with
     | .ok (r, h) =>
       r == 6 && h.length == 7 &&
       (match h[5]?, h[6]? with
        | some (Cell.list 0 [0, 1]), some (Cell.list 0 [5, 5, 1]) => true
        | _, _ => false)
     | .error _ => false) = true := by decide +kernel

end Pypyr.C09
