/-
  C09 — formatting is pure and structure-preserving.

  Tree level: theorems about `Pypyr.fmtIter` / `fmtVal` (`PypyrModel/Fmt.lean`), for ALL values,
  contexts and fuel. Heap level: theorems about `FmtHeap.fmtH` / `fmtHeap`
  (`PypyrModel/FmtHeap.lean`), where identity and mutation are observable.
  Property theorems only; helper lemmas live in Props/Lemmas/C09_*.lean.
-/
import PypyrModel.Fmt
import PypyrModel.FmtHeap
import PypyrModel.FmtRoute
import Generated.FmtLadder
import Props.Lemmas.C09_Tree
import Props.Lemmas.C09_Heap
import Props.Lemmas.C09_Sim
import Props.Lemmas.C09_Memo
import Props.Lemmas.C09_Wf
import Props.Lemmas.C09_Nodes
import Props.Lemmas.C09_Faithful
import Props.Lemmas.C09_Basic

namespace Pypyr.C09
open Pypyr Pypyr.FmtHeap

/-! ## Tree level -/

/-- **Kind preservation.** Whatever `_get_formatted_iterable` returns for `v` has the container
    skeleton of `v`: the same constructor at every container node, children formatted element-wise,
    non-string leaves equal (relation `Shaped`, `Props/Lemmas/C09_Tree.lean`). For every fuel,
    context, recursion flag and value. -/
theorem fmt_kind_preserved :
    ∀ (fuel : Nat) (ctx : Ctx) (isRec : Bool) (v r : Val),
      fmtIter fuel ctx isRec v = .ok r → Shaped v r := by
  intro fuel
  induction fuel with
  | zero => intro ctx isRec v r h; simp [fmtIter] at h
  | succ n ih =>
    intro ctx isRec v r h
    have hf : ∀ x y, fmtIter n ctx isRec x = .ok y → Shaped x y := fun x y => ih ctx isRec x y
    cases v with
    | list xs =>
      simp only [fmtIter] at h
      cases hm : mapE (fmtIter n ctx isRec) xs with
      | error e => rw [hm] at h; cases h
      | ok ys => rw [hm] at h; cases h; exact ⟨ys, rfl, shapedL_of_mapE hf hm⟩
    | tuple xs =>
      simp only [fmtIter] at h
      cases hm : mapE (fmtIter n ctx isRec) xs with
      | error e => rw [hm] at h; cases h
      | ok ys => rw [hm] at h; cases h; exact ⟨ys, rfl, shapedL_of_mapE hf hm⟩
    | set xs =>
      simp only [fmtIter] at h
      cases hm : mapE (fmtIter n ctx isRec) xs with
      | error e => rw [hm] at h; cases h
      | ok ys => rw [hm] at h; cases h; exact ⟨ys, rfl, shapedL_of_mapE hf hm⟩
    | dict kvs =>
      simp only [fmtIter] at h
      split at h
      · cases h
      · rename_i kvs' hm
        cases h
        exact ⟨kvs', rfl, shapedP_of_mapE hf hm⟩
    | str s => simp [Shaped]
    | sic s => simp [Shaped]
    | py e => simp [Shaped]
    | jsonify w => simp [Shaped]
    | none => simp only [fmtIter] at h; cases h; simp [Shaped]
    | bool b => simp only [fmtIter] at h; cases h; simp [Shaped]
    | int i => simp only [fmtIter] at h; cases h; simp [Shaped]
    | flt a b => simp only [fmtIter] at h; cases h; simp [Shaped]
    | bytes s => simp only [fmtIter] at h; cases h; simp [Shaped]
    | obj i => simp only [fmtIter] at h; cases h; simp [Shaped]

example : fmtIter 5 [("a", .int 7)] false (.list [.str "{a}", .tuple [.none, .str "x{a}"]])
    = .ok (.list [.int 7, .tuple [.none, .str "x7"]]) := by decide +kernel

/-- Lists: a list comes back as a list of the same length whose members are the formatted members,
    position by position. -/
theorem fmt_list_elementwise (fuel : Nat) (ctx : Ctx) (isRec : Bool) (xs : List Val) (r : Val)
    (h : fmtIter (fuel + 1) ctx isRec (.list xs) = .ok r) :
    ∃ ys, r = .list ys ∧ ys.length = xs.length ∧
      All₂ (fun x y => fmtIter fuel ctx isRec x = .ok y) xs ys := by
  simp only [fmtIter] at h
  cases hm : mapE (fmtIter fuel ctx isRec) xs with
  | error e => rw [hm] at h; cases h
  | ok ys => rw [hm] at h; cases h; exact ⟨ys, rfl, mapE_ok_length hm, mapE_ok_forall₂ hm⟩

/-- Tuples: same as lists. -/
theorem fmt_tuple_elementwise (fuel : Nat) (ctx : Ctx) (isRec : Bool) (xs : List Val) (r : Val)
    (h : fmtIter (fuel + 1) ctx isRec (.tuple xs) = .ok r) :
    ∃ ys, r = .tuple ys ∧ ys.length = xs.length ∧
      All₂ (fun x y => fmtIter fuel ctx isRec x = .ok y) xs ys := by
  simp only [fmtIter] at h
  cases hm : mapE (fmtIter fuel ctx isRec) xs with
  | error e => rw [hm] at h; cases h
  | ok ys => rw [hm] at h; cases h; exact ⟨ys, rfl, mapE_ok_length hm, mapE_ok_forall₂ hm⟩

/-- Dicts: a dict comes back as a dict built from the element-wise formatted (key, value) pairs; it
    has at most as many items, and exactly as many — the pairs themselves, in order — when the
    formatted keys are pairwise distinct. -/
theorem fmt_dict_size (fuel : Nat) (ctx : Ctx) (isRec : Bool) (kvs : List (Val × Val)) (r : Val)
    (h : fmtIter (fuel + 1) ctx isRec (.dict kvs) = .ok r) :
    ∃ kvs', kvs'.length = kvs.length ∧
      All₂ (fun kv kv' => fmtIter fuel ctx isRec kv.1 = .ok kv'.1 ∧ fmtIter fuel ctx isRec kv.2 = .ok kv'.2) kvs kvs' ∧
      r = .dict (rebuildDict kvs') ∧ (rebuildDict kvs').length ≤ kvs.length ∧
      ((kvs'.map (·.1)).Nodup → r = .dict kvs') := by
  simp only [fmtIter] at h
  split at h
  · cases h
  · rename_i kvs' hm
    cases h
    have hlen := mapE_ok_length hm
    refine ⟨kvs', hlen, ?_, rfl, ?_, ?_⟩
    · have := mapE_ok_forall₂ hm
      clear hm hlen
      induction this with
      | nil => exact All₂.nil
      | cons hxy _ ih =>
        refine All₂.cons ?_ ih
        split at hxy
        · cases hxy
        · rename_i k hk
          split at hxy
          · cases hxy
          · rename_i w hw
            cases hxy
            exact ⟨hk, hw⟩
    · have := rebuildDict_length_le kvs'; omega
    · intro hnd; rw [rebuildDict_of_nodup kvs' hnd]

/-- Sets: a set comes back as the set of its formatted members; at most as many members, exactly
    the formatted members when these are pairwise distinct. -/
theorem fmt_set_size (fuel : Nat) (ctx : Ctx) (isRec : Bool) (xs : List Val) (r : Val)
    (h : fmtIter (fuel + 1) ctx isRec (.set xs) = .ok r) :
    ∃ ys, ys.length = xs.length ∧ All₂ (fun x y => fmtIter fuel ctx isRec x = .ok y) xs ys ∧
      r = .set (setOfList ys) ∧ (setOfList ys).length ≤ xs.length ∧ (ys.Nodup → r = .set ys) := by
  simp only [fmtIter] at h
  cases hm : mapE (fmtIter fuel ctx isRec) xs with
  | error e => rw [hm] at h; cases h
  | ok ys =>
    rw [hm] at h; cases h
    have hlen := mapE_ok_length hm
    refine ⟨ys, hlen, mapE_ok_forall₂ hm, rfl, ?_, ?_⟩
    · have := setOfList_length_le ys; omega
    · intro hnd; simp only [setOfList_of_nodup ys hnd]

example : fmtIter 5 [("a", .str "x")] false (.dict [(.str "{a}", .int 1), (.str "x", .int 2), (.str "y", .int 3)])
    = .ok (.dict [(.str "x", .int 2), (.str "y", .int 3)]) := by decide +kernel

/-- **Non-string leaves come through equal**: None, booleans, numbers, bytes and arbitrary objects
    are returned as they are, whatever the context (given any fuel at all). -/
theorem fmt_nonstring_leaf_id (fuel : Nat) (ctx : Ctx) (isRec : Bool) (v : Val)
    (h : isLeafVal v = true) : fmtIter (fuel + 1) ctx isRec v = .ok v := by
  cases v <;> simp [isLeafVal] at h <;> simp [fmtIter]

example : isLeafVal (.obj 3) = true ∧ isLeafVal (.bytes "00") = true ∧ isLeafVal (.flt 1 1) = true := by
  decide

/-- **Brace-free values are returned equal to the input** (partial-correctness form, every fuel):
    if `v` has no `{`/`}` in any string, no special tag, and satisfies the representation invariant
    of dicts and sets (`wfVal`: keys / members pairwise distinct — what a Python dict / set always
    satisfies), then whatever formatting returns is `v`. -/
theorem fmt_bracefree_id :
    ∀ (fuel : Nat) (ctx : Ctx) (isRec : Bool) (v r : Val),
      braceFree v = true → wfVal v = true → fmtIter fuel ctx isRec v = .ok r → r = v := by
  intro fuel
  induction fuel with
  | zero => intro ctx isRec v r _ _ h; simp [fmtIter] at h
  | succ n ih =>
    intro ctx isRec v r hb hw h
    cases v with
    | list xs =>
      simp only [braceFree] at hb; simp only [wfVal] at hw
      simp only [fmtIter] at h
      cases hm : mapE (fmtIter n ctx isRec) xs with
      | error e => rw [hm] at h; cases h
      | ok ys =>
        rw [hm] at h; cases h
        have := mapE_ok_eq_self (fun x hx y hy =>
          ih ctx isRec x y ((braceFreeL_iff xs).mp hb x hx) ((wfValL_iff xs).mp hw x hx) hy) hm
        simp [this]
    | tuple xs =>
      simp only [braceFree] at hb; simp only [wfVal] at hw
      simp only [fmtIter] at h
      cases hm : mapE (fmtIter n ctx isRec) xs with
      | error e => rw [hm] at h; cases h
      | ok ys =>
        rw [hm] at h; cases h
        have := mapE_ok_eq_self (fun x hx y hy =>
          ih ctx isRec x y ((braceFreeL_iff xs).mp hb x hx) ((wfValL_iff xs).mp hw x hx) hy) hm
        simp [this]
    | set xs =>
      simp only [braceFree] at hb
      simp only [wfVal, Bool.and_eq_true] at hw
      simp only [fmtIter] at h
      cases hm : mapE (fmtIter n ctx isRec) xs with
      | error e => rw [hm] at h; cases h
      | ok ys =>
        rw [hm] at h; cases h
        have := mapE_ok_eq_self (fun x hx y hy =>
          ih ctx isRec x y ((braceFreeL_iff xs).mp hb x hx) ((wfValL_iff xs).mp hw.2 x hx) hy) hm
        subst this
        simp [setOfList_of_nodup ys ((nodupB_iff ys).mp hw.1)]
    | dict kvs =>
      simp only [braceFree] at hb
      simp only [wfVal, Bool.and_eq_true] at hw
      simp only [fmtIter] at h
      split at h
      · cases h
      · rename_i kvs' hm
        cases h
        have hself : kvs' = kvs := by
          refine mapE_ok_eq_self (fun kv hkv kv' hkv' => ?_) hm
          have hbk := (braceFreeP_iff kvs).mp hb kv hkv
          have hwk := (wfValP_iff kvs).mp hw.2 kv hkv
          split at hkv'
          · cases hkv'
          · rename_i k hk
            split at hkv'
            · cases hkv'
            · rename_i w hw'
              cases hkv'
              rw [ih ctx isRec kv.1 k hbk.1 hwk.1 hk, ih ctx isRec kv.2 w hbk.2 hwk.2 hw']
        subst hself
        have hnd : (kvs'.map (·.1)).Nodup := by
          rw [← keysOf_eq_map]; exact (nodupB_iff _).mp hw.1
        simp [rebuildDict_of_nodup kvs' hnd]
    | str s =>
      simp only [braceFree] at hb
      simp only [fmtIter] at h
      cases n with
      | zero => simp [fmtKeepType] at h
      | succ m => rw [fmtKeepType_braceFree m ctx isRec s hb] at h; cases h; rfl
    | sic s => simp [braceFree] at hb
    | py e => simp [braceFree] at hb
    | jsonify w => simp [braceFree] at hb
    | none => simp only [fmtIter] at h; cases h; rfl
    | bool b => simp only [fmtIter] at h; cases h; rfl
    | int i => simp only [fmtIter] at h; cases h; rfl
    | flt a b => simp only [fmtIter] at h; cases h; rfl
    | bytes s => simp only [fmtIter] at h; cases h; rfl
    | obj i => simp only [fmtIter] at h; cases h; rfl

/-- **Brace-free values are returned equal to the input** (total form): with fuel at least the
    nesting depth `need v`, formatting succeeds and returns `v` itself — in particular no context
    lookup can fail. -/
theorem fmt_bracefree_total :
    ∀ (fuel : Nat) (ctx : Ctx) (isRec : Bool) (v : Val),
      braceFree v = true → wfVal v = true → need v ≤ fuel → fmtIter fuel ctx isRec v = .ok v := by
  intro fuel
  induction fuel with
  | zero =>
    intro ctx isRec v _ _ hn
    cases v <;> simp [need] at hn
  | succ n ih =>
    intro ctx isRec v hb hw hn
    cases v with
    | list xs =>
      simp only [braceFree] at hb; simp only [wfVal] at hw; simp only [need] at hn
      have : mapE (fmtIter n ctx isRec) xs = .ok xs := mapE_id (fun x hx =>
        ih ctx isRec x ((braceFreeL_iff xs).mp hb x hx) ((wfValL_iff xs).mp hw x hx)
          (by have := need_le_of_mem hx; omega))
      simp [fmtIter, this, Except.map]
    | tuple xs =>
      simp only [braceFree] at hb; simp only [wfVal] at hw; simp only [need] at hn
      have : mapE (fmtIter n ctx isRec) xs = .ok xs := mapE_id (fun x hx =>
        ih ctx isRec x ((braceFreeL_iff xs).mp hb x hx) ((wfValL_iff xs).mp hw x hx)
          (by have := need_le_of_mem hx; omega))
      simp [fmtIter, this, Except.map]
    | set xs =>
      simp only [braceFree] at hb; simp only [wfVal, Bool.and_eq_true] at hw; simp only [need] at hn
      have : mapE (fmtIter n ctx isRec) xs = .ok xs := mapE_id (fun x hx =>
        ih ctx isRec x ((braceFreeL_iff xs).mp hb x hx) ((wfValL_iff xs).mp hw.2 x hx)
          (by have := need_le_of_mem hx; omega))
      simp [fmtIter, this, Except.map, setOfList_of_nodup xs ((nodupB_iff xs).mp hw.1)]
    | dict kvs =>
      simp only [braceFree] at hb; simp only [wfVal, Bool.and_eq_true] at hw; simp only [need] at hn
      have hnd : (kvs.map (·.1)).Nodup := by
        rw [← keysOf_eq_map]; exact (nodupB_iff _).mp hw.1
      simp only [fmtIter]
      rw [mapE_id (xs := kvs)]
      · simp only [rebuildDict_of_nodup kvs hnd]
      · intro kv hkv
        have hbk := (braceFreeP_iff kvs).mp hb kv hkv
        have hwk := (wfValP_iff kvs).mp hw.2 kv hkv
        have hnk := need_le_of_memP hkv
        rw [ih ctx isRec kv.1 hbk.1 hwk.1 (by omega), ih ctx isRec kv.2 hbk.2 hwk.2 (by omega)]
    | str s =>
      simp only [braceFree] at hb; simp only [need] at hn
      cases n with
      | zero => omega
      | succ m => simp only [fmtIter]; exact fmtKeepType_braceFree m ctx isRec s hb
    | sic s => simp [braceFree] at hb
    | py e => simp [braceFree] at hb
    | jsonify w => simp [braceFree] at hb
    | none => simp [fmtIter]
    | bool b => simp [fmtIter]
    | int i => simp [fmtIter]
    | flt a b => simp [fmtIter]
    | bytes s => simp [fmtIter]
    | obj i => simp [fmtIter]

example : braceFree (.dict [(.str "k", .list [.str "plain", .int 1, .set [.none]])]) = true ∧
    wfVal (.dict [(.str "k", .list [.str "plain", .int 1, .set [.none]])]) = true ∧
    need (.dict [(.str "k", .list [.str "plain", .int 1, .set [.none]])]) = 4 := by decide +kernel

/-- **`fmt_preserves_wf`.** Whatever formatting returns satisfies the representation invariant of dicts and
    sets (`wfVal`: keys / members pairwise distinct at every node), provided the context values do — for every
    input value whatsoever (the rebuilt dicts and sets establish it; context objects are handed back as they
    are through `{k}`, `{k:ff}`, `!py`). -/
theorem fmt_preserves_wf (fuel : Nat) (ctx : Ctx) (isRec : Bool) (v r : Val) (hctx : CtxWf ctx)
    (h : fmtIter fuel ctx isRec v = .ok r) : wfVal r = true :=
  (fmt_wf_all fuel).1 ctx isRec v r hctx h

/-- **Idempotence on brace-free results**: if formatting `v` gave `r` and `r` is brace-free, then formatting
    `r` again — against any context, with any fuel that lets it finish — gives `r`; and with fuel `need r` it
    does finish. No hypothesis on the OUTPUT `r` beyond "brace-free": that it is a well-formed value follows
    from `fmt_preserves_wf` (the context values of the first call are well-formed: what Python dicts and sets
    always are). -/
theorem fmt_idempotent_on_bracefree_result (fuel fuel' : Nat) (ctx ctx' : Ctx) (v r : Val)
    (hctx : CtxWf ctx) (h : fmtVal fuel ctx v = .ok r) (hb : braceFree r = true) :
    (∀ r', fmtVal fuel' ctx' r = .ok r' → r' = r) ∧ (need r ≤ fuel' → fmtVal fuel' ctx' r = .ok r) :=
  have hw : wfVal r = true := fmt_preserves_wf fuel ctx false v r hctx h
  ⟨fun r' h' => fmt_bracefree_id fuel' ctx' false r r' hb hw h',
   fun hn => fmt_bracefree_total fuel' ctx' false r hb hw hn⟩

example : CtxWf [("a", .list [.str "x", .int 1])] := by
  intro k v h
  simp only [Ctx.get?] at h
  split at h
  · cases h; decide
  · cases h

example : fmtVal 6 [("a", .list [.str "x", .int 1])] (.str "{a}") = .ok (.list [.str "x", .int 1]) ∧
    braceFree (.list [.str "x", .int 1]) = true := by decide +kernel


/-! ## The same claims on the FAITHFUL tree-level model

  `Pypyr.fmtIter` above is the model on the simple expression grammar: it compares dict keys and set members
  structurally and has no hash check (`{'{a}': 1}` with `a = []` is `.ok` there, `TypeError: unhashable type:
  'list'` in Python). `Format.fmtIter` (`PypyrModel/Format.lean`, the model C08's correspondence validates on the
  whole grammar) builds dicts and sets by Python equality (`True == 1 == 1.0`: `dictPut` / `setPut`) and raises
  that TypeError. The tree-level claims hold for it too (Props/Lemmas/C09_Faithful.lean); `C09F.WfPy` is the
  representation invariant by Python equality, `C09F.KeysHashF` "every key / member is hashable". -/

/-! ### special tags are formatted WHATEVER their payload

  `SpecialTagDirective.__bool__` makes a tag with an empty / zero / false / null payload a FALSY object. The
  formatter dispatches on the TYPE of what it reaches, never on its truth value: an empty `!sic` is the empty
  string, `!jsonify []` is the text `[]`; no special tag ever comes back as itself from its own position. (The
  models have no truth value for an arbitrary leaf object at all: `fmt_nonstring_leaf_id` holds for every
  `.obj`, so a leaf whose `bool()` raises or has an effect is, in the model, just a leaf.) -/

/-- `!sic` gives its literal for every payload, the empty one included. -/
theorem fmt_sic_any_payload (fuel : Nat) (ctx : Ctx) (isRec : Bool) (s : String) :
    fmtIter (fuel + 1) ctx isRec (.sic s) = .ok (.str s) := by
  simp [fmtIter]

/-- Whatever formatting a `!sic` / `!jsonify` returns is a string: the tag object never passes through. -/
theorem fmt_special_never_passes_through (fuel : Nat) (ctx : Ctx) (isRec : Bool) (v r : Val)
    (hv : (∃ s, v = .sic s) ∨ (∃ w, v = .jsonify w)) (h : fmtIter fuel ctx isRec v = .ok r) : ∃ s, r = .str s := by
  cases fuel with
  | zero => simp [fmtIter] at h
  | succ n =>
    rcases hv with ⟨s, rfl⟩ | ⟨w, rfl⟩
    · simp only [fmtIter] at h
      cases h
      exact ⟨s, rfl⟩
    · simp only [fmtIter] at h
      split at h
      · cases h
      · split at h
        · rename_i s _
          cases h
          exact ⟨s, rfl⟩
        · cases h

/-- the falsy payloads, one by one (the demo of the seeded change C09-5) -/
example : fmtVal 4 [] (.sic "") = .ok (.str "") ∧
    fmtVal 4 [] (.jsonify (.list [])) = .ok (.str "[]") ∧ fmtVal 4 [] (.jsonify (.dict [])) = .ok (.str "{}") ∧
    fmtVal 4 [] (.jsonify (.int 0)) = .ok (.str "0") ∧ fmtVal 4 [] (.jsonify (.bool false)) = .ok (.str "false") ∧
    fmtVal 4 [] (.jsonify .none) = .ok (.str "null") ∧ fmtVal 4 [] (.jsonify (.str "")) = .ok (.str "\"\"") ∧
    fmtVal 8 [("a", .str "A")] (.list [.sic "", .jsonify (.list []), .str "{a}"]) =
      .ok (.list [.str "", .str "[]", .str "A"]) := by
  refine ⟨?_, ?_, ?_, ?_, ?_, ?_, ?_, ?_⟩ <;> decide +kernel

/-- Kind preservation: same constructor at every container node, children formatted pair by pair / member by
    member, dicts and sets built by Python's insertion. -/
theorem faithful_kind_preserved (fuel : Nat) (ctx : Ctx) (isRec : Bool) (v r : Val)
    (h : Format.fmtIter fuel ctx isRec v = .ok r) : C09F.ShapedF v r :=
  C09F.faithful_shaped fuel ctx isRec v r h

/-- Non-string leaves come through equal. -/
theorem faithful_nonstring_leaf_id (fuel : Nat) (ctx : Ctx) (isRec : Bool) (v : Val) (h : isLeafVal v = true) :
    Format.fmtIter (fuel + 1) ctx isRec v = .ok v :=
  C09F.faithful_leaf_id fuel ctx isRec v h

/-- Brace-free values are returned equal to the input — whatever is returned … -/
theorem faithful_bracefree_id (fuel : Nat) (ctx : Ctx) (isRec : Bool) (v r : Val)
    (hb : braceFree v = true) (hw : C09F.WfPy v) (h : Format.fmtIter fuel ctx isRec v = .ok r) : r = v :=
  C09F.faithful_bracefree_id fuel ctx isRec v r hb hw h

/-- … and with fuel at least the nesting depth and hashable keys / members it IS returned (in particular: no
    lookup, no TypeError). -/
theorem faithful_bracefree_total (fuel : Nat) (ctx : Ctx) (isRec : Bool) (v : Val)
    (hb : braceFree v = true) (hw : C09F.WfPy v) (hh : C09F.KeysHashF v) (hn : need v ≤ fuel) :
    Format.fmtIter fuel ctx isRec v = .ok v :=
  C09F.faithful_bracefree_total fuel ctx isRec v hb hw hh hn

/-- The faithful formatter's output satisfies the representation invariant by Python equality when the
    context values and the input do (`dictPut` / `setPut` establish it for rebuilt dicts and sets; lookups,
    conversions and `!py` only select from well-formed values or produce text). -/
theorem faithful_preserves_wf (fuel : Nat) (ctx : Ctx) (isRec : Bool) (v r : Val)
    (hctx : C09F.CtxWfPy ctx) (hv : C09F.WfPy v) (h : Format.fmtIter fuel ctx isRec v = .ok r) : C09F.WfPy r :=
  (C09F.faithful_wf_all fuel).1 ctx isRec v r hctx hv h

/-- Idempotence on brace-free results, faithful model: no hypothesis on the output beyond "brace-free". -/
theorem faithful_idempotent (fuel fuel' : Nat) (ctx ctx' : Ctx) (v r : Val)
    (hctx : C09F.CtxWfPy ctx) (hv : C09F.WfPy v) (h : Format.fmtVal fuel ctx v = .ok r)
    (hb : braceFree r = true) :
    ∀ r', Format.fmtVal fuel' ctx' r = .ok r' → r' = r :=
  fun r' h' => C09F.faithful_bracefree_id fuel' ctx' false r r' hb
    (faithful_preserves_wf fuel ctx false v r hctx hv h) h'

/-- **The two tree-level models, related (`basic_of_faithful`).** On the fragment `C09B.Frag` — every string a
    string of the simple grammar (literal text, `{{`, `}}`, `{name}`, `{name:rf}`, `{name:ff}` with a simple
    name), dict keys and set members plain (brace-free strings, None, ints, bytes, objects: expressions only in
    VALUES) — in the value and in every context value: whatever the faithful model returns with fuel `f`, the
    basic model returns with fuel `2 * f`. Together with `fmtH_simulates_tree` all three models are tied by
    theorems; outside the fragment (expression keys, numeric key collisions, the full grammar) the two tree
    models are compared by the harness (`basic_agrees` in C08, `faithful:agrees` here). -/
theorem basic_of_faithful (f : Nat) (ctx : Ctx) (isRec : Bool) (v w : Val)
    (hctx : C09B.FragCtx ctx) (hv : C09B.Frag v) (h : Format.fmtIter f ctx isRec v = .ok w) :
    Pypyr.fmtIter (2 * f) ctx isRec v = .ok w :=
  C09B.basic_of_faithful f ctx isRec v w hctx hv h

/-- the fragment is inhabited by non-trivial values: `'a{{b}} {k:rf}'` is the rendering of four simple chunks -/
example : C09B.Frag (.list [.str "a{{b}} {k:rf}", .dict [(.str "key", .str "{k}")]]) := by
  simp only [C09B.Frag, C09B.FragL, C09B.FragP, and_true]
  refine ⟨⟨[.text "a".toList, .lbrace, .text "b".toList, .rbrace, .text " ".toList, .expr ⟨"k".toList, "rf".toList, none⟩],
    ?_, by decide⟩, ?_, ⟨[.expr ⟨"k".toList, [], none⟩], ?_, by decide⟩⟩
  · intro c hc
    simp only [List.mem_cons, List.not_mem_nil, or_false] at hc
    rcases hc with rfl | rfl | rfl | rfl | rfl | rfl
    · exact ⟨by decide, by decide⟩
    · trivial
    · exact ⟨by decide, by decide⟩
    · trivial
    · exact ⟨by decide, by decide⟩
    · exact ⟨⟨by decide, by decide, by decide⟩, rfl, Or.inr (Or.inl rfl)⟩
  · intro k hk
    simp [keysOf] at hk
    subst hk
    show strBraceFree "key" = true
    decide
  · intro c hc
    simp only [List.mem_cons, List.not_mem_nil, or_false] at hc
    subst hc
    exact ⟨⟨by decide, by decide, by decide⟩, rfl, Or.inl rfl⟩

/-- The hash check is what separates the two tree models: an unhashable formatted key is a TypeError in the
    faithful model (and in Python), a value in the basic one; `True` and `1` as keys merge in the faithful model
    (and in Python), stay apart in the basic one. The harness compares the implementation with BOTH. -/
example :
    Format.fmtVal 5 [("a", .list [])] (.dict [(.str "{a}", .int 1)]) = .error (Format.errUnhashable "list") ∧
    fmtVal 5 [("a", .list [])] (.dict [(.str "{a}", .int 1)]) = .ok (.dict [(.list [], .int 1)]) ∧
    Format.fmtVal 5 [("a", .bool true)] (.dict [(.str "{a}", .int 1), (.int 1, .int 2)])
      = .ok (.dict [(.bool true, .int 2)]) ∧
    fmtVal 5 [("a", .bool true)] (.dict [(.str "{a}", .int 1), (.int 1, .int 2)])
      = .ok (.dict [(.bool true, .int 1), (.int 1, .int 2)]) := by
  refine ⟨by rfl, by decide +kernel, by rfl, by decide +kernel⟩

/-! ## Heap level: identity, mutation and sharing are observable

  `FmtHeap.fmtHeap fuel ctx h r` formats the object at address `r` of heap `h` against the context
  `ctx` (string keys bound to addresses of `h`) and returns the result address and the heap
  afterwards. The input value and every context value are objects of `h`. -/

/-- **Purity (`fmtHeap_alloc_only`).** A formatting call only allocates: the heap afterwards is the
    heap before followed by new cells. So every pre-existing cell — every object of the value being
    formatted and of the context — is unchanged at its address, and the tree value read at any
    pre-existing address (`readVal`, the deep value) is the same before and after. For all heaps,
    contexts, roots and fuel. -/
theorem fmtHeap_alloc_only (fuel : Nat) (ctx : HCtx) (h h' : Heap) (r r' : Ref)
    (hf : fmtHeap fuel ctx h r = .ok (r', h')) :
    (∃ ext, h' = h ++ ext) ∧
    (∀ (i : Nat) (c : Cell), h[i]? = some c → h'[i]? = some c) ∧
    (∀ (f : Nat) (x : Ref) (v : Val), readVal f h x = some v → readVal f h' x = some v) := by
  unfold fmtHeap at hf
  split at hf
  · cases hf
  · rename_i r1 st hst
    cases hf
    have e : Ext h st.heap := (fmtH_good hst).ext
    refine ⟨?_, fun i c hc => e.get hc, fun f x v hv => readVal_ext e f x v hv⟩
    obtain ⟨ext, he, _⟩ := e
    exact ⟨ext, he⟩

/-- The same for a call made in the middle of a traversal, with any memo. -/
theorem fmtH_alloc_only (fuel : Nat) (ctx : HCtx) (isRec : Bool) (r r' : Ref) (st st' : St)
    (hf : fmtH fuel ctx isRec r st = .ok (r', st')) :
    (∃ ext, st'.heap = st.heap ++ ext) ∧
    (∀ (i : Nat) (c : Cell), st.heap[i]? = some c → st'.heap[i]? = some c) := by
  have e : Ext st.heap st'.heap := (fmtH_good hf).ext
  refine ⟨?_, fun i c hc => e.get hc⟩
  obtain ⟨ext, he, _⟩ := e
  exact ⟨ext, he⟩

/-- Corollary in the property's words: the value being formatted and every context value are
    deep-equal before and after the call. -/
theorem fmtHeap_input_and_context_unchanged (fuel : Nat) (ctx : HCtx) (h h' : Heap) (r r' : Ref)
    (hf : fmtHeap fuel ctx h r = .ok (r', h')) :
    (∀ v, deepVal h r = some v → readVal (h.length + 1) h' r = some v) ∧
    (∀ k x v, HCtx.get? ctx k = some x → deepVal h x = some v → readVal (h.length + 1) h' x = some v) :=
  ⟨fun v hv => (fmtHeap_alloc_only fuel ctx h h' r r' hf).2.2 _ r v hv,
   fun _ x v _ hv => (fmtHeap_alloc_only fuel ctx h h' r r' hf).2.2 _ x v hv⟩

/-- The formatter never allocates a non-string leaf (nor a special tag): every new cell is a string
    or a container. Hence every non-string leaf reachable in the result is a pre-existing object. -/
theorem fmtHeap_allocates_no_leaf (fuel : Nat) (ctx : HCtx) (h h' : Heap) (r r' : Ref)
    (hf : fmtHeap fuel ctx h r = .ok (r', h')) :
    ∀ (i : Nat) (c : Cell), h.length ≤ i → h'[i]? = some c → isAllocCell c = true := by
  unfold fmtHeap at hf
  split at hf
  · cases hf
  · rename_i r1 st hst
    cases hf
    exact fun i c hi hc => (fmtH_good hst).ext.new_isAlloc hi hc

/-- **Leaf identity (`fmtHeap_leaf_identity`).** Formatting a non-string leaf — None, bool, number,
    bytes, arbitrary object (`Cell.leaf`) or the MUTABLE binary leaf bytearray (`Cell.mbytes`) —
    returns the same reference and leaves the heap as it is. -/
theorem fmtHeap_leaf_identity (fuel : Nat) (ctx : HCtx) (h h' : Heap) (r r' : Ref) (c : Cell)
    (hc : h[r]? = some c) (hl : isLeafCell c = true)
    (hf : fmtHeap fuel ctx h r = .ok (r', h')) : r' = r ∧ h' = h := by
  unfold fmtHeap at hf
  split at hf
  · cases hf
  · rename_i r1 st hst
    cases hf
    have hn : MemoNoLeaf { heap := h, memo := [] } := by intro x d hx; simp [memoGet] at hx
    have := fmtH_leaf hn hc hl hst
    exact ⟨this.1, by rw [this.2]⟩

/-- The two binary leaves spelled out: `bytes` and `bytearray` objects come back as the very same
    object (a bytearray is mutable: an equal but detached copy would be observable by a later write). -/
theorem fmtHeap_binary_identity (fuel : Nat) (ctx : HCtx) (h h' : Heap) (r r' : Ref) (b : String)
    (hc : h[r]? = some (.leaf (.bytes b)) ∨ h[r]? = some (.mbytes b))
    (hf : fmtHeap fuel ctx h r = .ok (r', h')) : r' = r ∧ h' = h := by
  rcases hc with hc | hc
  · exact fmtHeap_leaf_identity fuel ctx h h' r r' _ hc rfl hf
  · exact fmtHeap_leaf_identity fuel ctx h h' r r' _ hc rfl hf

example : (match fmtHeap 4 [] [.mbytes "7b617d", .leaf (.bytes "7b617d"), .list 0 [0, 1, 0]] 2 with
    | .ok (r, h) => r == 3 && (match h[3]? with | some (Cell.list 0 [0, 1, 0]) => true | _ => false)
    | .error _ => false) = true := by decide +kernel

/-- The empty memo of a top-level call has no leaf keys, and no call ever adds one. -/
theorem memoNoLeaf_invariant (fuel : Nat) (ctx : HCtx) (isRec : Bool) (r r' : Ref) (st st' : St)
    (hf : fmtH fuel ctx isRec r st = .ok (r', st')) :
    MemoNoLeaf { heap := st.heap, memo := [] } ∧ (MemoNoLeaf st → MemoNoLeaf st') :=
  ⟨by intro x d hx; simp [memoGet] at hx, (fmtH_good hf).noLeaf⟩

/-- **List nodes (leaf identity and sharing at every node).** Formatting a list object that the
    memo does not yet answer for — at the top of a call or anywhere inside a traversal — yields a
    NEW list cell of the same class tag and length; a member that is a non-string leaf (immutable
    leaf or bytearray: `isLeafCell`) is the same reference in the result (`fmtHeap_leaf_identity` at every node); a container member that
    occurs at two positions is formatted once and the result holds one shared reference at both
    positions (`fmtHeap_sharing`: the id-keyed memo). -/
theorem fmtH_list_node (n : Nat) (ctx : HCtx) (isRec : Bool) (r r' : Nat) (st st' : St)
    (tag : Nat) (rs : List Ref)
    (hn : MemoNoLeaf st) (hmiss : memoHit st r = none) (hc : st.heap[r]? = some (.list tag rs))
    (hf : fmtH (n + 1) ctx isRec r st = .ok (r', st')) :
    ∃ rs', st'.heap[r']? = some (.list tag rs') ∧ st.heap.length ≤ r' ∧ rs'.length = rs.length ∧
      All₂ (fun x y => ∀ c, st.heap[x]? = some c → isLeafCell c = true → y = x) rs rs' ∧
      (∀ (i j x : Nat), i < j → rs[i]? = some x → rs[j]? = some x → isContainerAt st.heap x = true →
        rs'[i]? = rs'[j]?) := by
  unfold fmtH at hf
  rw [hmiss] at hf
  simp only [hc] at hf
  split at hf
  · cases hf
  · rename_i rs' st1 hm
    simp only [alloc] at hf
    cases hf
    have ⟨hleaf, g⟩ := mapS_fmtH_leaves hn hm
    refine ⟨rs', by simp, g.ext.length_le, mapS_length _ _ _ _ hm, hleaf, ?_⟩
    intro i j x hij hi hj hx
    exact mapS_fmtH_shared rs st rs' st1 hm i j x hij hi hj hx

/-- Tuple nodes: as list nodes. -/
theorem fmtH_tuple_node (n : Nat) (ctx : HCtx) (isRec : Bool) (r r' : Nat) (st st' : St)
    (tag : Nat) (rs : List Ref)
    (hn : MemoNoLeaf st) (hmiss : memoHit st r = none) (hc : st.heap[r]? = some (.tuple tag rs))
    (hf : fmtH (n + 1) ctx isRec r st = .ok (r', st')) :
    ∃ rs', st'.heap[r']? = some (.tuple tag rs') ∧ st.heap.length ≤ r' ∧ rs'.length = rs.length ∧
      All₂ (fun x y => ∀ c, st.heap[x]? = some c → isLeafCell c = true → y = x) rs rs' ∧
      (∀ (i j x : Nat), i < j → rs[i]? = some x → rs[j]? = some x → isContainerAt st.heap x = true →
        rs'[i]? = rs'[j]?) := by
  unfold fmtH at hf
  rw [hmiss] at hf
  simp only [hc] at hf
  split at hf
  · cases hf
  · rename_i rs' st1 hm
    simp only [alloc] at hf
    cases hf
    have ⟨hleaf, g⟩ := mapS_fmtH_leaves hn hm
    refine ⟨rs', by simp, g.ext.length_le, mapS_length _ _ _ _ hm, hleaf, ?_⟩
    intro i j x hij hi hj hx
    exact mapS_fmtH_shared rs st rs' st1 hm i j x hij hi hj hx


/-- **Dict nodes** (every Mapping class the harness numbers: `dict`, ruamel's `CommentedMap`, `OrderedDict`,
    subclasses — the class tag). Formatting a dict object that the memo does not yet answer for yields a NEW
    dict cell with the SAME class tag (`obj.__class__(generator of pairs)`); keys and values are formatted pair
    by pair in order (`kvs'`), a key or value that is a non-string leaf keeps its reference; of the pairs whose
    FORMATTED keys are equal the new dict holds the FIRST key object and the LAST value object
    (`dict.__setitem__`), every formatted key value is represented, and there are no more pairs than before. -/
theorem fmtH_dict_node (n : Nat) (ctx : HCtx) (isRec : Bool) (r r' : Nat) (st st' : St)
    (tag : Nat) (kvs : List (Ref × Ref))
    (hn : MemoNoLeaf st) (hmiss : memoHit st r = none) (hc : st.heap[r]? = some (.dict tag kvs))
    (hf : fmtH (n + 1) ctx isRec r st = .ok (r', st')) :
    ∃ (kvs' kvs'' : List (Ref × Ref)) (h1 : Heap),
      st'.heap = h1 ++ [.dict tag kvs''] ∧ r' = h1.length ∧ st.heap.length ≤ r' ∧
      kvs'.length = kvs.length ∧
      All₂ (fun kv kv' => KeepsLeaf st.heap kv.1 kv'.1 ∧ KeepsLeaf st.heap kv.2 kv'.2) kvs kvs' ∧
      (∀ p ∈ kvs'', ∃ kv, deepVal h1 p.1 = some kv ∧ firstKeyH h1 kv kvs' = some p.1 ∧
        lastValH h1 kv kvs' = some p.2) ∧
      (∀ p ∈ kvs', ∃ q ∈ kvs'', deepVal h1 q.1 = deepVal h1 p.1) ∧
      kvs''.length ≤ kvs.length := by
  unfold fmtH at hf
  rw [hmiss] at hf
  simp only [hc] at hf
  split at hf
  · cases hf
  · rename_i kvs' st1 hm
    split at hf
    · cases hf
    · rename_i kvs'' hr
      simp only [alloc] at hf
      cases hf
      have ⟨hall, g, _⟩ := mapS_rel (fun s => Good st s ∧ MemoNoLeaf s)
        (fun (kv kv' : Ref × Ref) => KeepsLeaf st.heap kv.1 kv'.1 ∧ KeepsLeaf st.heap kv.2 kv'.2)
        (fun kv s y s' hq hxy => dictStep_leaves kv s y s' hq hxy) kvs st kvs' st1 ⟨Good.refl st, hn⟩ hm
      have hlen := mapS_length _ _ _ _ hm
      obtain ⟨s1, s2, _, s4⟩ := rebuildDictH_spec hr
      exact ⟨kvs', kvs'', st1.heap, rfl, rfl, g.ext.length_le, hlen, hall, s1, s2, by omega⟩

/-- **Set nodes** (`set`, `frozenset` — tag 1 —, subclasses). A NEW set cell with the SAME class tag
    (`obj.__class__(generator of members)`); members are formatted one by one (`rs'`), a non-string leaf member
    keeps its reference; of the members whose FORMATTED values are equal the new set holds the FIRST object
    (`set.add` keeps what is there), every formatted member value is represented, no more members than before. -/
theorem fmtH_set_node (n : Nat) (ctx : HCtx) (isRec : Bool) (r r' : Nat) (st st' : St)
    (tag : Nat) (rs : List Ref)
    (hn : MemoNoLeaf st) (hmiss : memoHit st r = none) (hc : st.heap[r]? = some (.set tag rs))
    (hf : fmtH (n + 1) ctx isRec r st = .ok (r', st')) :
    ∃ (rs' rs'' : List Ref) (h1 : Heap),
      st'.heap = h1 ++ [.set tag rs''] ∧ r' = h1.length ∧ st.heap.length ≤ r' ∧
      rs'.length = rs.length ∧ All₂ (KeepsLeaf st.heap) rs rs' ∧
      (∀ m ∈ rs'', ∃ mv, deepVal h1 m = some mv ∧ firstMemH h1 mv rs' = some m) ∧
      (∀ m ∈ rs', ∃ q ∈ rs'', deepVal h1 q = deepVal h1 m) ∧
      rs''.length ≤ rs.length := by
  unfold fmtH at hf
  rw [hmiss] at hf
  simp only [hc] at hf
  split at hf
  · cases hf
  · rename_i rs' st1 hm
    split at hf
    · cases hf
    · rename_i rs'' hr
      simp only [alloc] at hf
      cases hf
      have ⟨hall, g, _⟩ := mapS_rel (fun s => Good st s ∧ MemoNoLeaf s) (KeepsLeaf st.heap)
        (fun m s y s' hq hxy => setStep_leaves m s y s' hq hxy) rs st rs' st1 ⟨Good.refl st, hn⟩ hm
      have hlen := mapS_length _ _ _ _ hm
      obtain ⟨fin, rfl, _, f2, f3, f4, _, f6⟩ := rebuildSetH_spec rs' [] rs'' (by intro e he; simp at he) (by simp) hr
      refine ⟨rs', fin.map (·.2), st1.heap, rfl, rfl, g.ext.length_le, hlen, hall, ?_, ?_, ?_⟩
      · intro m hm'
        simp only [List.mem_map] at hm'
        obtain ⟨e, he, rfl⟩ := hm'
        rcases f3 e he with h' | ⟨_, hfm⟩
        · simp at h'
        · exact ⟨e.1, f2 e he, hfm⟩
      · intro m hm'
        obtain ⟨e, he, hd⟩ := f4 m hm'
        exact ⟨e.2, List.mem_map.mpr ⟨e, he, rfl⟩, by rw [f2 e he, hd]⟩
      · simp only [List.length_map]; simp only [List.length_nil] at f6; omega

/- CommentedMap (tag 2) whose two keys format to the same text: cells 0 'x', 1 '{k}', 2 'x' (another object),
   3 = 1, 4 = 2, 5 = the CommentedMap {'{k}': 1, 'x': 2}; context k -> 0. The result is a NEW tag-2 cell whose
   single pair holds the FIRST key object (the context's 'x', object 0, which '{k}' evaluates to) and the LAST
   value (object 4). A frozenset (tag 1) of the same two strings keeps the first member. -/
example :
    (match fmtHeap 6 [("k", 0)]
        [.str "x", .str "{k}", .str "x", .leaf (.int 1), .leaf (.int 2), .dict 2 [(1, 3), (2, 4)], .set 1 [1, 2]] 5 with
     | .ok (r, h) => (match h[r]? with | some (Cell.dict 2 [(0, 4)]) => true | _ => false)
     | .error _ => false) = true ∧
    (match fmtHeap 6 [("k", 0)]
        [.str "x", .str "{k}", .str "x", .leaf (.int 1), .leaf (.int 2), .dict 2 [(1, 3), (2, 4)], .set 1 [1, 2]] 6 with
     | .ok (r, h) => (match h[r]? with | some (Cell.set 1 [0]) => true | _ => false)
     | .error _ => false) = true := by
  constructor <;> decide +kernel

/-- **Sharing (`fmtHeap_sharing`), general form.** Once a container object has been formatted the
    memo answers for it (`fmtH_records`), the answer survives every later call of the traversal
    (`Good.stable`), and a later occurrence returns that very reference without touching the
    state. -/
theorem fmtHeap_sharing (fuel n : Nat) (ctx : HCtx) (isRec : Bool) (x y : Nat) (st st1 : St)
    (hx : isContainerAt st.heap x = true) (h1 : fmtH fuel ctx isRec x st = .ok (y, st1)) :
    memoHit st1 x = some y ∧
    (∀ (z z' : Ref) (st2 : St) (f : Nat) (c : HCtx) (b : Bool),
        fmtH f c b z st1 = .ok (z', st2) →
        memoHit st2 x = some y ∧ fmtH (n + 1) ctx isRec x st2 = .ok (y, st2)) := by
  have hrec := fmtH_records hx h1
  refine ⟨hrec, ?_⟩
  intro z z' st2 f c b h2
  have := (fmtH_good h2).stable x y hrec
  exact ⟨this, fmtH_hit this⟩

/-- Top-level corollary for a list value: new list, leaves by reference, shared members shared. -/
theorem fmtHeap_list (n : Nat) (ctx : HCtx) (h h' : Heap) (r r' : Nat) (tag : Nat) (rs : List Ref)
    (hc : h[r]? = some (.list tag rs)) (hf : fmtHeap (n + 1) ctx h r = .ok (r', h')) :
    ∃ rs', h'[r']? = some (.list tag rs') ∧ h.length ≤ r' ∧ rs'.length = rs.length ∧
      All₂ (fun x y => ∀ c, h[x]? = some c → isLeafCell c = true → y = x) rs rs' ∧
      (∀ (i j x : Nat), i < j → rs[i]? = some x → rs[j]? = some x → isContainerAt h x = true →
        rs'[i]? = rs'[j]?) := by
  unfold fmtHeap at hf
  split at hf
  · cases hf
  · rename_i r1 st hst
    cases hf
    exact fmtH_list_node n ctx false r _ { heap := h, memo := [] } st tag rs
      (by intro x d hx; simp [memoGet] at hx) (by simp [memoHit, memoGet]) hc hst


/-! ## The heap-level model simulates the tree-level model — for ANY sound memo

  Three models of `_get_formatted_iterable` exist: `Pypyr.fmtIter` (trees, `PypyrModel/Fmt.lean`: what the
  tree-level theorems above are about), `FmtHeap.fmtH` (objects: identity, sharing, the id-keyed memo) and
  `Format.fmtIter` (trees, the full expression grammar: C08). This section ties the first two: whatever
  `fmtH` returns READS AS what `fmtIter` computes from the tree reading of its input — so every identity
  claim above is a claim about the same values the tree-level theorems speak of.

  `Reads h r v` (Props/Lemmas/C09_Sim.lean): the object at `r` reads as the tree value `v` (= `readVal`
  with enough fuel; on a heap whose objects refer to lower addresses only — `Ordered`, what the driver
  admits — that is `deepVal h r = some v`). `CtxReads h hc c`: `c` is the tree reading of the context `hc`.
  `LeafOk h`: `leaf` cells hold non-string leaves. `MemoSound c b st`: every memo entry `(x, d)` that
  answers holds at `d` the formatted value of the value the CURRENT heap has at `x`. -/

/-- **`fmtH_memo_sound`: a call made with an ARBITRARY sound memo.** If the incoming memo is sound, the
    result reads as the tree-level formatted value of the input, and the memo handed on is sound again:
    `MemoSound` is an invariant of every traversal; on an ordered heap the heap stays ordered. For all
    heaps, memos, contexts, roots, flags and fuel. -/
theorem fmtH_memo_sound (fuel : Nat) (hc : HCtx) (c : Ctx) (b : Bool) (r r' : Ref) (st st' : St) (v : Val)
    (hleaf : LeafOk st.heap) (hctx : CtxReads st.heap hc c) (hmemo : MemoSound c b st)
    (hv : Reads st.heap r v) (hf : fmtH fuel hc b r st = .ok (r', st')) :
    (∃ fuel' w, fmtIter fuel' c b v = .ok w ∧ Reads st'.heap r' w) ∧ MemoSound c b st' ∧
    (Ordered st.heap → Ordered st'.heap) := by
  obtain ⟨o, inv, t⟩ := (fmtH_sim_all fuel).1 hc b r st r' st' c v hf ⟨hleaf, hctx, hmemo⟩ hv
  exact ⟨t, inv.2.2, o⟩

/-- **The result does not depend on the memo.** Two calls on the same object of the same heap, made with
    two different sound memos (for instance: any sound memo and the empty one), return objects that read
    as the SAME value. The memo is an optimisation, not an observable — as long as it is sound. -/
theorem fmtH_memo_independent (f1 f2 : Nat) (hc : HCtx) (c : Ctx) (b : Bool) (r r1 r2 : Ref) (h : Heap)
    (m1 m2 : Memo) (s1 s2 : St) (v : Val)
    (hleaf : LeafOk h) (hctx : CtxReads h hc c) (hv : Reads h r v)
    (hm1 : MemoSound c b { heap := h, memo := m1 }) (hm2 : MemoSound c b { heap := h, memo := m2 })
    (h1 : fmtH f1 hc b r { heap := h, memo := m1 } = .ok (r1, s1))
    (h2 : fmtH f2 hc b r { heap := h, memo := m2 } = .ok (r2, s2)) :
    ∃ w, Reads s1.heap r1 w ∧ Reads s2.heap r2 w := by
  obtain ⟨⟨fa, wa, ta, ra⟩, _, _⟩ := fmtH_memo_sound f1 hc c b r r1 _ s1 v hleaf hctx hm1 hv h1
  obtain ⟨⟨fb, wb, tb, rb⟩, _, _⟩ := fmtH_memo_sound f2 hc c b r r2 _ s2 v hleaf hctx hm2 hv h2
  have : wa = wb := fmtIter_unique ta tb
  subst this
  exact ⟨wa, ra, rb⟩

/-- **`fmtH_simulates_tree`.** A top-level call (`Context.get_formatted_value`, empty memo): if the input
    object reads as `v`, the result object reads as `fmtIter … v`. -/
theorem fmtH_simulates_tree (fuel : Nat) (hc : HCtx) (c : Ctx) (h h' : Heap) (r r' : Ref) (v : Val)
    (hleaf : LeafOk h) (hctx : CtxReads h hc c)
    (hf : fmtHeap fuel hc h r = .ok (r', h')) (hv : deepVal h r = some v) :
    ∃ fuel' w, Pypyr.fmtIter fuel' c false v = .ok w ∧ Reads h' r' w := by
  unfold fmtHeap at hf
  split at hf
  · cases hf
  · rename_i r1 st hst
    cases hf
    exact (fmtH_memo_sound fuel hc c false r _ _ st v hleaf hctx (MemoSound.nil _ _ _)
      (Reads.of_deepVal hv) hst).1

/-- … in the vocabulary of the driver: on an ORDERED heap (every object refers to lower addresses only:
    `heapOk` of lean/Driver/OpHeap.lean) with the computed tree reading of the context,
    `deepVal h' r' = some w` — the value the harness compares with the tree model's. -/
theorem fmtH_simulates_tree_ordered (fuel : Nat) (hc : HCtx) (c : Ctx) (h h' : Heap) (r r' : Ref) (v : Val)
    (hleaf : LeafOk h) (hord : Ordered h) (hctx : ctxVal h hc = some c)
    (hf : fmtHeap fuel hc h r = .ok (r', h')) (hv : deepVal h r = some v) :
    ∃ fuel' w, Pypyr.fmtIter fuel' c false v = .ok w ∧ deepVal h' r' = some w ∧ Ordered h' := by
  unfold fmtHeap at hf
  split at hf
  · cases hf
  · rename_i r1 st hst
    cases hf
    obtain ⟨⟨f, w, t, rd⟩, _, o⟩ := fmtH_memo_sound fuel hc c false r _ _ st v hleaf (ctxVal_reads hctx)
      (MemoSound.nil _ _ _) (Reads.of_deepVal hv) hst
    exact ⟨f, w, t, (o hord).deepVal rd, o hord⟩

/-- the hypotheses are satisfiable, and the conclusion is what the models compute: the heap of the
    example at the end of this file -/
example : leafOkB [.str "v", .leaf (.obj 7), .str "{a}", .list 0 [2, 1], .list 0 [3, 3, 1]] = true ∧
    orderedB [.str "v", .leaf (.obj 7), .str "{a}", .list 0 [2, 1], .list 0 [3, 3, 1]] = true ∧
    ctxVal [.str "v", .leaf (.obj 7), .str "{a}", .list 0 [2, 1], .list 0 [3, 3, 1]] [("a", 0)]
      = some [("a", .str "v")] ∧
    deepVal [.str "v", .leaf (.obj 7), .str "{a}", .list 0 [2, 1], .list 0 [3, 3, 1]] 4
      = some (.list [.list [.str "{a}", .obj 7], .list [.str "{a}", .obj 7], .obj 7]) ∧
    fmtIter 6 [("a", .str "v")] false (.list [.list [.str "{a}", .obj 7], .list [.str "{a}", .obj 7], .obj 7])
      = .ok (.list [.list [.str "v", .obj 7], .list [.str "v", .obj 7], .obj 7]) := by
  refine ⟨by decide, by decide, by decide +kernel, by decide +kernel, by decide +kernel⟩

/-! ## The memo when addresses can be re-used (counter-model `PypyrModel/FmtFree.lean`)

  `FmtHeap` gives every object a permanent address, so the statements above say nothing about an object
  that DIES during the traversal and whose address the next object gets. `FmtFree.fmtLazy keepAlive`
  formats the members of a sequence that creates one fresh str per member while it is iterated, on a
  heap with a free list; `keepAlive = true` is the code since /repo 2cfa9de (the memo keeps a reference to
  every object it has an entry for), `false` the code before. -/

/-- **With the repaired code no address of a memoised object is re-used while the memo lives**
    (nothing is ever freed), **`MemoSound` is an invariant, and every member is formatted as itself**:
    the references returned for the members read as `fmtIter` of each member's OWN text. -/
theorem memo_keeps_alive_sound (fuel : Nat) (hc : HCtx) (c : Ctx) (b : Bool) (texts : List String)
    (s s' : FmtFree.FSt) (rs : List Ref)
    (hfree : s.free = []) (hleaf : LeafOk s.heap) (hctx : CtxReads s.heap hc c) (hmemo : MemoSound c b s.st)
    (hf : FmtFree.fmtLazy true fuel hc b texts s = .ok (rs, s')) :
    s'.free = [] ∧ MemoSound c b s'.st ∧
    ∃ F ws, mapE (fmtIter F c b) (texts.map Val.str) = .ok ws ∧ All₂ (Reads s'.heap) rs ws := by
  obtain ⟨h1, inv, _, t⟩ := fmtLazy_keep_sound fuel hc c b texts s rs s' hfree ⟨hleaf, hctx, hmemo⟩ hf
  exact ⟨h1, inv.2.2, t⟩

/-- **Before the repair soundness fails.** After the first member `'x{k0}'` of a lazily materialised
    sequence was formatted (result at 3, memo `2 ↦ 3`), died, and the second member `'x{k1}'` was created
    at its address 2, the memo is not sound (the state is the one `fmtLazy false` reaches:
    Props/Lemmas/C09_Memo.lean). -/
theorem memo_reuse_breaks_soundness : ¬ MemoSound wTree false wReused := memo_unsound_after_reuse

/-- … and the observable consequence: `['x{k0}', 'x{k1}']` comes back as `['xv0', 'xv0']` with
    `keepAlive = false`, as `['xv0', 'xv1']` — what the tree model says — with `keepAlive = true`. -/
theorem memo_reuse_wrong_result :
    (match FmtFree.fmtLazySeq false 6 wCtx 0 ["x{k0}", "x{k1}"] wHeap with
     | .ok (r, h) => deepVal h r == some (.list [.str "xv0", .str "xv0"])
     | .error _ => false) = true ∧
    (match FmtFree.fmtLazySeq true 6 wCtx 0 ["x{k0}", "x{k1}"] wHeap with
     | .ok (r, h) => deepVal h r == some (.list [.str "xv0", .str "xv1"])
     | .error _ => false) = true ∧
    fmtVal 6 wTree (.list [.str "x{k0}", .str "x{k1}"]) = .ok (.list [.str "xv0", .str "xv1"]) :=
  lazy_prefix_wrong

/- A concrete heap: cell 0 = 'v', 1 = Opaque object, 2 = '{a}', 3 = [2, 1], 4 = [3, 3, 1].
   Context a -> 0. Formatting cell 4 gives a new list [n, n, 1] with n a new list ['v'-object, 1]:
   the inner list is formatted once and shared, the opaque object is the same reference, the
   five old cells are untouched. -/
example :
    (match fmtHeap 6 [("a", 0)]
        [.str "v", .leaf (.obj 7), .str "{a}", .list 0 [2, 1], .list 0 [3, 3, 1]] 4 with
     | .ok (r, h) =>
       r == 6 && h.length == 7 &&
       (match h[5]?, h[6]? with
        | some (Cell.list 0 [0, 1]), some (Cell.list 0 [5, 5, 1]) => true
        | _, _ => false)
     | .error _ => false) = true := by decide +kernel

/-! ## The classifier: which `isinstance` answer routes to which branch (PypyrModel/FmtRoute.lean) -/

open Pypyr.FmtRoute in
/-- **ladder_is_assumed** — the STATIC TIE (`Generated/FmtLadder.lean`, written by ast from pypyr/formatting.py
    of the tree under test on every run): the if / elif chain of `_get_formatted_iterable` tests, in this order,
    passthrough types, special types, str, bytes / bytearray, Mapping, Sequence-or-Set, each rung's body is the
    single statement the model assumes (the str rung hands the WHOLE string to `_format_keep_type`: no shortcut
    in front of it), the else returns the object, and Mapping / Sequence / Set are the collections.abc classes. -/
theorem ladder_is_assumed :
    Pypyr.Generated.FmtLadder.ladder = ladderAssumed ∧
    Pypyr.Generated.FmtLadder.elseBody = elseAssumed ∧
    Pypyr.Generated.FmtLadder.origins = originsAssumed := by
  decide

open Pypyr.FmtRoute in
/-- **route_reads_source_ladder** — the routing table `route` IS the extracted ladder read top to bottom:
    for every combination of `isinstance` answers. -/
theorem route_reads_source_ladder (t : Tags) :
    routeBy Pypyr.Generated.FmtLadder.elseBody t Pypyr.Generated.FmtLadder.ladder = some (route t) := by
  rw [ladder_is_assumed.1, ladder_is_assumed.2.1]
  obtain ⟨a, b, c, d, e, f, g⟩ := t
  cases a <;> cases b <;> cases c <;> cases d <;> cases e <;> cases f <;> cases g <;> decide

open Pypyr.FmtRoute in
/-- **route_leaf_iff** — an object is a leaf (returned as the identical object, `return obj`) exactly when
    every `isinstance` test of the ladder says no. -/
theorem route_leaf_iff (t : Tags) :
    route t = .leaf ↔ t = {} := by
  obtain ⟨a, b, c, d, e, f, g⟩ := t
  cases a <;> cases b <;> cases c <;> cases d <;> cases e <;> cases f <;> cases g <;> decide

open Pypyr.FmtRoute in
/-- **route_ignores_attrs** — what an object's class DEFINES (`__len__`, `__iter__`, `__contains__`,
    `__getitem__`, `keys`) is no input of the routing: two objects with the same `isinstance` answers take the
    same branch; in particular an object none of the tests matches is a leaf whatever it defines. -/
theorem route_ignores_attrs (o₁ o₂ : Obj) (h : o₁.tags = o₂.tags) : routeObj o₁ = routeObj o₂ := by
  simp [routeObj, h]

open Pypyr.FmtRoute in
theorem almost_container_is_leaf (a : Attrs) : routeObj ⟨{}, a⟩ = .leaf := rfl

open Pypyr.FmtRoute in
/-- **collection_hook_counter_model** — the COUNTER-MODEL (not pypyr) with the structural
    `collections.abc.Collection` in place of Sequence-or-Set takes an object that merely defines `__len__`,
    `__iter__`, `__contains__` for a container; it agrees with `route` on every object that does not define all
    three (which is why only such objects tell the two apart). -/
theorem collection_hook_counter_model :
    (∃ o, routeObj o = .leaf ∧ routeCollection o = .iterable) ∧
    (∀ o : Obj, (o.attrs.len && o.attrs.iter && o.attrs.contains) = false → routeCollection o = routeObj o) := by
  refine ⟨⟨⟨{}, { len := true, iter := true, contains := true }⟩, rfl, rfl⟩, ?_⟩
  intro o h
  simp [routeCollection, routeObj, route, h]

open Pypyr.FmtRoute in
/-- **fmtH_leaf_route** — the heap model follows the classifier at a leaf: a cell whose tags route to `leaf` or
    to the bytes rung comes back as the SAME reference with heap and memo untouched (no constructor call, no
    write), for every fuel, context and state. -/
theorem fmtH_leaf_route (fuel : Nat) (ctx : HCtx) (isRec : Bool) (r : Ref) (st : St) (c : Cell)
    (hc : st.heap[r]? = some c) (hm : memoHit st r = none)
    (hr : route (cellTags c) = .leaf ∨ route (cellTags c) = .bytesLeaf) :
    fmtH (fuel + 1) ctx isRec r st = .ok (r, st) := by
  cases c with
  | leaf v => simp [fmtH, hm, hc]
  | mbytes b => simp [fmtH, hm, hc]
  | str s => simp [cellTags, route] at hr
  | list t rs => simp [cellTags, route] at hr
  | tuple t rs => simp [cellTags, route] at hr
  | dict t kvs => simp [cellTags, route] at hr
  | set t rs => simp [cellTags, route] at hr
  | sic p => simp [cellTags, route] at hr
  | pyName n => simp [cellTags, route] at hr
  | jsonify p => simp [cellTags, route] at hr

open Pypyr.FmtRoute in
/-- … and every container / string / special cell is routed to the branch `fmtH` has for it. -/
theorem cell_routes :
    (∀ s, route (cellTags (.str s)) = .format) ∧
    (∀ t rs, route (cellTags (.list t rs)) = .iterable) ∧ (∀ t rs, route (cellTags (.tuple t rs)) = .iterable) ∧
    (∀ t rs, route (cellTags (.set t rs)) = .iterable) ∧ (∀ t kvs, route (cellTags (.dict t kvs)) = .mapping) ∧
    (∀ p, route (cellTags (.sic p)) = .special) ∧ (∀ n, route (cellTags (.pyName n)) = .special) ∧
    (∀ p, route (cellTags (.jsonify p)) = .special) ∧ (∀ i, route (cellTags (.leaf (.obj i))) = .leaf) ∧
    (∀ b, route (cellTags (.leaf (.bytes b))) = .bytesLeaf) ∧ (∀ b, route (cellTags (.mbytes b)) = .bytesLeaf) := by
  refine ⟨?_, ?_, ?_, ?_, ?_, ?_, ?_, ?_, ?_, ?_, ?_⟩ <;> intros <;> rfl

/-- A `Basket`-like object (sized, iterable, supports `in`; registered nowhere) is a leaf; a registered virtual
    Sequence is a container; a str subclass is formatted. -/
example : FmtRoute.routeObj ⟨{}, { len := true, iter := true, contains := true, getitem := true }⟩ = .leaf ∧
    FmtRoute.route { sequence := true } = .iterable ∧ FmtRoute.route { str := true, sequence := true } = .format := by
  decide

end Pypyr.C09
