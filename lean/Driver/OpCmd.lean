/- Driver ops for the Cmd model (C17): `cmd.parse`, `cmd.serial`, `cmd.async`, `cmd.enchist`.

   An instruction string identifies the CONTENT of a command; the configuration may hold it any number of
   times (identical entries). Process ids in the observations are those of the instruction strings: an id
   occurs as often as processes of that instruction were started / finished / failed.

   All three take the step's configuration as a wire value (`cfg`; absent = no such context key), whether
   the step is a shell step (`shell`), and — the run ops — the *world*: the scripted outcome of every
   instruction string (`procs`) and of every output path (`paths`). The model parses the configuration
   (`Cmd.parseCmdConfig`), resolves the strings (`RawCommand.toS / toA`) and runs the step. -/
import Lean.Data.Json
import PypyrModel.Json
import PypyrModel.Cmd

namespace Pypyr.OpCmd
open Lean (Json JsonNumber)
open Pypyr.Cmd

def natJ (n : Nat) : Json := Json.num (JsonNumber.fromNat n)
def intJ (i : Int) : Json := Json.num (JsonNumber.fromInt i)

def kindJ : SpawnKind → Json
  | .notFound => Json.str "notFound"
  | .permission => Json.str "permission"
  | .badArgs => Json.str "badArgs"

def kindOf (j : Json) : Except String (Option SpawnKind) :=
  match j with
  | .null => pure none
  | .str "notFound" => pure (some .notFound)
  | .str "permission" => pure (some .permission)
  | .str "badArgs" => pure (some .badArgs)
  | _ => throw s!"unknown spawn kind {j.compress}"

def openKindJ : OpenKind → Json
  | .isDir => Json.str "isDir"
  | .parentFile => Json.str "parentFile"

def openKindOf (j : Json) : Except String (Option OpenKind) :=
  match j with
  | .null => pure none
  | .str "isDir" => pure (some .isDir)
  | .str "parentFile" => pure (some .parentFile)
  | _ => throw s!"unknown open kind {j.compress}"

def isAsciiText (c : Char) : Bool := (c.toNat ≥ 32 && c.toNat < 127) || c == '\n' || c == '\t'

/-- Scripted output: bytes shown one character per byte. In the modelled domain: printable ASCII,
    space, tab, newline (on which `rstrip`, text-mode decoding and the model agree), and the bytes
    a1..ff (never white space, never changed by `rstrip`; not valid utf-8 / ascii on their own). -/
def okText (s : String) : Bool :=
  s.toList.all fun c => isAsciiText c || (c.toNat ≥ 0xa1 && c.toNat ≤ 0xff)

def hasHigh (s : String) : Bool := s.toList.any fun c => !isAsciiText c

def boolOf (j : Json) (k : String) : Except String Bool := do
  match ← j.getObjVal? k with
  | .bool b => pure b
  | _ => throw s!"{k} must be a bool"

def procOf (j : Json) : Except String (String × Proc) := do
  let name ← (← j.getObjVal? "name").getStr?
  let id ← jsonNat? (← j.getObjVal? "id")
  let spawn ← kindOf (← j.getObjVal? "spawn")
  let code ← jsonInt? (← j.getObjVal? "code")
  let out ← (← j.getObjVal? "out").getStr?
  let err ← (← j.getObjVal? "err").getStr?
  let df ← boolOf j "decodeFails"
  -- exit statuses: 0..255, or -N for death by signal N (1..64)
  if code > 255 || code < -64 then throw "exit status outside -64..255 is outside the modelled domain"
  if !(okText out && okText err) then throw "scripted output outside the modelled domain"
  if spawn.isSome && (code != 0 || out != "" || err != "" || df) then
    throw "a command that cannot be started has no exit status and no output"
  if df && !(hasHigh out || hasHigh err) then throw "ASCII output is decodable under every modelled encoding"
  pure (name, ⟨id, spawn, code, out, err, df⟩)

structure PathSpec where
  path    : String
  bad     : Option OpenKind
  content : Option String

def pathOf (j : Json) : Except String PathSpec := do
  let path ← (← j.getObjVal? "path").getStr?
  let bad ← openKindOf (← j.getObjVal? "bad")
  let content ← (match ← j.getObjVal? "content" with
    | .null => pure none
    | .str s => pure (some s)
    | _ => throw "content must be a string or null" : Except String (Option String))
  if let some s := content then
    if !okText s then throw "file content outside the modelled domain"
  pure ⟨path, bad, content⟩

structure WorldSpec where
  procs : List (String × Proc)
  paths : List PathSpec

def worldOf (j : Json) : Except String WorldSpec := do
  let w ← j.getObjVal? "world"
  let procs ← (← (← w.getObjVal? "procs").getArr?).toList.mapM procOf
  let paths ← (← (← w.getObjVal? "paths").getArr?).toList.mapM pathOf
  let ids := procs.map (·.2.id)
  if ids.eraseDups.length != ids.length then throw "process ids must be distinct"
  let names := procs.map (·.1)
  if names.eraseDups.length != names.length then throw "instruction strings must be distinct"
  let ps := paths.map (·.path)
  if ps.eraseDups.length != ps.length then throw "paths must be distinct"
  pure ⟨procs, paths⟩

def WorldSpec.world (ws : WorldSpec) : World :=
  { proc := fun s => ((ws.procs.find? (·.1 = s)).map (·.2)).getD default,
    openErr := fun p => (ws.paths.find? (·.path = p)).bind (·.bad) }

def WorldSpec.fs (ws : WorldSpec) : Fs :=
  ws.paths.filterMap fun p => p.content.map fun c => (p.path, c)

def cfgOf (j : Json) : Except String (Option Val) :=
  match j.getObjVal? "cfg" with
  | .ok v => do pure (some (← Val.ofJson v))
  | .error _ => pure none

def targetPaths : Target → List String
  | .file p => [p]
  | _ => []

/-- Everything the model's reading of a command relies on and the wire cannot enforce by type. -/
def checkCommand (ws : WorldSpec) (async : Bool) (c : RawCommand) : Except String Unit := do
  let s := c.set
  match s.enc with
  | none => pure ()
  | some e => if !(e = "utf-8" || e = "latin-1" || e = "ascii") then throw s!"encoding {e} is outside the modelled domain"
  for p in targetPaths s.stdout ++ targetPaths s.stderr do
    if !(ws.paths.any (·.path = p)) then throw s!"output path {p} is not in the world"
  if let (.file a, .file b) := (s.stdout, s.stderr) then
    if a = b then throw "stdout and stderr to the same file is outside the modelled domain"
  if s.stdout = .file "/dev/stdout" then throw "stdout: /dev/stdout is outside the modelled domain"
  let dec := if async then s.save && s.text else syncDec s.save s.text s.enc.isSome
  for n in c.run.strings do
    match ws.procs.find? (·.1 = n) with
    | none => throw s!"instruction {n} is not in the world"
    | some (_, p) =>
      if p.decodeFails && s.enc = some "latin-1" then throw "latin-1 decodes every byte string"
      if dec && !p.decodeFails && (hasHigh p.out || hasHigh p.err) && s.enc != some "latin-1" then
        throw "non-ASCII output that decodes under utf-8 is outside the modelled domain"

def hasFile (c : RawCommand) : Bool := !(targetPaths c.set.stdout ++ targetPaths c.set.stderr).isEmpty

/-- An instruction string may occur any number of times (identical entries: the world gives them one and the
    same outcome, the observations are multisets of ids). Only `filesAsync` resolves a finished process by
    its id (`writerOf`): there an instruction of a command writing to a file must not occur in another command. -/
def checkCommands (ws : WorldSpec) (async : Bool) (cs : List RawCommand) : Except String Unit := do
  for c in cs do checkCommand ws async c
  if async then
    let ps := cs.flatMap fun c => targetPaths c.set.stdout ++ targetPaths c.set.stderr
    if ps.eraseDups.length != ps.length then
      throw "two concurrent commands writing one file is outside the modelled domain"
    let rec go : List RawCommand → Except String Unit
      | [] => pure ()
      | c :: rest => do
        for d in rest do
          if (hasFile c || hasFile d) && c.run.strings.any (fun n => d.run.strings.contains n) then
            throw "an instruction of a concurrent command writing to a file also occurs in another command: outside the modelled domain"
        go rest
    go cs

def outJ : Out → Json
  | .none => Json.null
  | .text s => Json.mkObj [("t", Json.str s)]
  | .bytes s => Json.mkObj [("b", Json.str s)]

def resJ (r : Result) : Json :=
  Json.mkObj [("id", natJ r.id), ("code", intJ r.code), ("stdout", outJ r.stdout), ("stderr", outJ r.stderr)]

def errJ : CmdErr → Json
  | .exit i c => Json.mkObj [("id", natJ i), ("code", intJ c)]
  | .spawn i k => Json.mkObj [("id", natJ i), ("spawn", kindJ k)]
  | .decode i => Json.mkObj [("decode", natJ i)]
  | .openOut p k => Json.mkObj [("open", Json.str p), ("kind", openKindJ k)]

def arrJ {α} (f : α → Json) (xs : List α) : Json := Json.arr (xs.map f).toArray

def itemJ : Item → Json
  | .res r => Json.mkObj [("res", resJ r)]
  | .exc e => Json.mkObj [("exc", errJ e)]

def slotJ : Slot → Json
  | .one i => Json.mkObj [("one", itemJ i)]
  | .sub is => Json.mkObj [("sub", arrJ itemJ is)]

def eventJ : Event → Json
  | .start i => Json.arr #[Json.str "s", natJ i]
  | .fin i => Json.arr #[Json.str "f", natJ i]

def targetJ : Target → Json
  | .inherit => Json.null
  | .devnull => Json.str "devnull"
  | .toStdout => Json.str "stdout"
  | .file p => Json.mkObj [("file", Json.str p)]

def optStrJ : Option String → Json
  | none => Json.null
  | some s => Json.str s

def rawEntryJ : RawEntry → Json
  | .one s => Json.str s
  | .sub ss => arrJ Json.str ss

def rawJ (c : RawCommand) : Json :=
  Json.mkObj [
    ("run", match c.run with
      | .single s => Json.str s
      | .many es => arrJ rawEntryJ es),
    ("shell", Json.bool c.set.shell), ("cwd", optStrJ c.set.cwd), ("save", Json.bool c.set.save),
    ("text", Json.bool c.set.text), ("encoding", optStrJ c.set.enc), ("stdout", targetJ c.set.stdout),
    ("stderr", targetJ c.set.stderr), ("append", Json.bool c.set.append)]

def fsJ (fs : Fs) : Json := Json.mkObj (fs.map fun (p, s) => (p, Json.str s))

def parsed (j : Json) (async : Bool) : Except String (Except Exc (List RawCommand)) := do
  let cfg ← cfgOf j
  let shell ← boolOf j "shell"
  match parseCmdConfig async shell cfg with
  | none => throw "configuration outside the modelled domain"
  | some r => pure r

def optStrOf (j : Json) : Except String (Option String) :=
  match j with
  | .null => pure none
  | .str s => pure (some s)
  | _ => throw s!"encoding must be a string or null: {j.compress}"

/-- A configured (not per-command) encoding: `null` or a non-empty name. -/
def cfgEncOf (j : Json) : Except String (Option String) := do
  match ← optStrOf j with
  | some "" => throw "outside the model: an empty string as configured encoding"
  | v => pure v

def hopOf (j : Json) : Except String HOp := do
  match ← (← j.getObjVal? "op").getStr? with
  | "imp" => pure (.imp (← (← j.getObjVal? "mod").getStr?))
  | "setCmd" => pure (.setCmdEnc (← cfgEncOf (← j.getObjVal? "v")))
  | "setFile" => pure (.setFileEnc (← cfgEncOf (← j.getObjVal? "v")))
  | "run" => pure (.run (← (← (← j.getObjVal? "own").getArr?).toList.mapM optStrOf))
  | o => throw s!"unknown history op {o}"

def handle (op : String) (j : Json) : Except String Json := do
  match op with
  | "enchist" =>
    let init ← j.getObjVal? "init"
    let cfg : EncCfg := { cmdEnc := ← cfgEncOf (← init.getObjVal? "cmd"), fileEnc := ← cfgEncOf (← init.getObjVal? "file") }
    let ops ← (← (← j.getObjVal? "ops").getArr?).toList.mapM hopOf
    let fin := cfgAfter cfg ops
    pure (Json.mkObj [("runs", arrJ (arrJ optStrJ) (runHist cfg ops)),
                      ("final", Json.mkObj [("cmd", optStrJ fin.cmdEnc), ("file", optStrJ fin.fileEnc)])])
  | "parse" =>
    let async ← boolOf j "async"
    match ← parsed j async with
    | .error e => pure (Json.mkObj [("err", Exc.toJson e)])
    | .ok cs => pure (Json.mkObj [("ok", arrJ rawJ cs),
        ("decls", arrJ (fun (x : String × Bool × Bool) =>
          Json.arr #[Json.str x.1, Json.bool x.2.1, Json.bool x.2.2]) (rawDecls cs))])
  | "serial" =>
    match ← parsed j false with
    | .error e => pure (Json.mkObj [("ctor_err", Exc.toJson e)])
    | .ok raw =>
      let ws ← worldOf j
      checkCommands ws false raw
      let prev ← (match j.getObjVal? "prev" with
        | .ok v => do pure (some (← Val.ofJson v))
        | .error _ => pure none : Except String (Option Val))
      let cs := raw.map (RawCommand.toS ws.world)
      let o := runSerial cs
      pure (Json.mkObj [
        ("started", arrJ natJ o.started),
        ("err", match o.err with | none => Json.null | some e => errJ e),
        ("results", arrJ resJ o.results),
        ("cmdOut", match o.cmdOut with
          | .unset => Json.null
          | .single r => Json.mkObj [("single", resJ r)]
          | .many rs => Json.mkObj [("many", arrJ resJ rs)]),
        ("after", match cmdOutAfter prev cs with
          | .prior none => Json.mkObj [("prior", Json.mkObj [("absent", Json.bool true)])]
          | .prior (some v) => Json.mkObj [("prior", Json.mkObj [("val", v.toJson)])]
          | .single r => Json.mkObj [("single", resJ r)]
          | .many rs => Json.mkObj [("many", arrJ resJ rs)]),
        ("files", fsJ (filesSerial cs ws.fs))])
  | "async" =>
    match ← parsed j true with
    | .error e => pure (Json.mkObj [("ctor_err", Exc.toJson e)])
    | .ok raw =>
      let ws ← worldOf j
      checkCommands ws true raw
      let cs := raw.map (RawCommand.toA ws.world)
      let sched ← (← (← j.getObjVal? "sched").getArr?).toList.mapM jsonNat?
      let o := runAsync cs sched
      pure (Json.mkObj [
        ("trace", arrJ eventJ o.trace),
        ("started", arrJ natJ o.started),
        ("errors", arrJ errJ o.errors),
        ("lanes", natJ (lanesOf cs).length),
        ("running", arrJ natJ o.running),
        ("cmdOut", match o.cmdOut with | none => Json.null | some ss => arrJ slotJ ss),
        ("files", fsJ (filesAsync cs o.trace ws.fs))])
  | _ => .error s!"unknown op {op}"

end Pypyr.OpCmd
