/- Driver ops for the Cmd model (C17): `cmd.serial`, `cmd.async`. -/
import Lean.Data.Json
import PypyrModel.Json
import PypyrModel.Cmd

namespace Pypyr.OpCmd
open Lean (Json JsonNumber)
open Pypyr.Cmd

def natJ (n : Nat) : Json := Json.num (JsonNumber.fromNat n)
def intJ (i : Int) : Json := Json.num (JsonNumber.fromInt i)

def kindJ : SpawnKind → Json
  | .notFound => Json.str "notFound"
  | .permission => Json.str "permission"
  | .badArgs => Json.str "badArgs"

def kindOf (j : Json) : Except String (Option SpawnKind) :=
  match j with
  | .null => pure none
  | .str "notFound" => pure (some .notFound)
  | .str "permission" => pure (some .permission)
  | .str "badArgs" => pure (some .badArgs)
  | _ => throw s!"unknown spawn kind {j.compress}"

/-- Scripted output must be text on which `rstrip`, text-mode decoding and the model agree:
    printable ASCII, space, tab, newline. Anything else is outside the modelled domain. -/
def okText (s : String) : Bool :=
  s.toList.all fun c => (c.toNat ≥ 32 && c.toNat < 127) || c == '\n' || c == '\t'

def procOf (j : Json) : Except String Proc := do
  let id ← jsonNat? (← j.getObjVal? "id")
  let spawn ← kindOf (← j.getObjVal? "spawn")
  let code ← jsonInt? (← j.getObjVal? "code")
  let out ← (← j.getObjVal? "out").getStr?
  let err ← (← j.getObjVal? "err").getStr?
  -- exit statuses: 0..255, or -N for death by signal N (1..64)
  if code > 255 || code < -64 then throw "exit status outside -64..255 is outside the modelled domain"
  if !(okText out && okText err) then throw "scripted output outside the modelled domain (ASCII text)"
  if spawn.isSome && (code != 0 || out != "" || err != "") then
    throw "a command that cannot be started has no exit status and no output"
  pure ⟨id, spawn, code, out, err⟩

def procsOf (j : Json) : Except String (List Proc) := do
  (← j.getArr?).toList.mapM procOf

def boolOf (j : Json) (k : String) : Except String Bool := do
  match ← j.getObjVal? k with
  | .bool b => pure b
  | _ => throw s!"{k} must be a bool"

def scommandOf (j : Json) : Except String SCommand := do
  let run ← procsOf (← j.getObjVal? "run")
  let save ← boolOf j "save"
  let text ← boolOf j "text"
  -- `is_text = not is_bytes if is_save else False`
  if !save && text then throw "text without save cannot be constructed by create_command"
  pure ⟨run, save, text⟩

def entryOf (j : Json) : Except String Entry := do
  if let .ok p := j.getObjVal? "one" then return .one (← procOf p)
  if let .ok ps := j.getObjVal? "serial" then return .serial (← procsOf ps)
  throw "bad entry"

def acommandOf (j : Json) : Except String ACommand := do
  let r ← j.getObjVal? "run"
  let run ← (do
    if let .ok p := r.getObjVal? "single" then return ARun.single (← procOf p)
    if let .ok es := r.getObjVal? "many" then return ARun.many (← (← es.getArr?).toList.mapM entryOf)
    throw "bad run" : Except String ARun)
  let save ← boolOf j "save"
  let text ← boolOf j "text"
  if !save && text then throw "text without save cannot be constructed by create_command"
  pure ⟨run, save, text⟩

def outJ : Out → Json
  | .none => Json.null
  | .text s => Json.mkObj [("t", Json.str s)]
  | .bytes s => Json.mkObj [("b", Json.str s)]

def resJ (r : Result) : Json :=
  Json.mkObj [("id", natJ r.id), ("code", intJ r.code), ("stdout", outJ r.stdout), ("stderr", outJ r.stderr)]

def errJ : CmdErr → Json
  | .exit i c => Json.mkObj [("id", natJ i), ("code", intJ c)]
  | .spawn i k => Json.mkObj [("id", natJ i), ("spawn", kindJ k)]

def arrJ {α} (f : α → Json) (xs : List α) : Json := Json.arr (xs.map f).toArray

def itemJ : Item → Json
  | .res r => Json.mkObj [("res", resJ r)]
  | .exc i k => Json.mkObj [("exc", Json.mkObj [("id", natJ i), ("spawn", kindJ k)])]

def slotJ : Slot → Json
  | .one i => Json.mkObj [("one", itemJ i)]
  | .sub is => Json.mkObj [("sub", arrJ itemJ is)]

def eventJ : Event → Json
  | .start i => Json.arr #[Json.str "s", natJ i]
  | .fin i => Json.arr #[Json.str "f", natJ i]

def handle (op : String) (j : Json) : Except String Json := do
  match op with
  | "serial" =>
    let cs ← (← (← j.getObjVal? "cmds").getArr?).toList.mapM scommandOf
    let o := runSerial cs
    pure (Json.mkObj [
      ("started", arrJ natJ o.started),
      ("err", match o.err with | none => Json.null | some e => errJ e),
      ("results", arrJ resJ o.results),
      ("cmdOut", match o.cmdOut with
        | .unset => Json.null
        | .single r => Json.mkObj [("single", resJ r)]
        | .many rs => Json.mkObj [("many", arrJ resJ rs)])])
  | "async" =>
    let cs ← (← (← j.getObjVal? "cmds").getArr?).toList.mapM acommandOf
    let sched ← (← (← j.getObjVal? "sched").getArr?).toList.mapM jsonNat?
    let o := runAsync cs sched
    pure (Json.mkObj [
      ("trace", arrJ eventJ o.trace),
      ("started", arrJ natJ o.started),
      ("errors", arrJ errJ o.errors),
      ("lanes", natJ (lanesOf cs).length),
      ("running", arrJ natJ o.running),
      ("cmdOut", match o.cmdOut with | none => Json.null | some ss => arrJ slotJ ss)])
  | _ => .error s!"unknown op {op}"

end Pypyr.OpCmd
