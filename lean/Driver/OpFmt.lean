/- Driver ops for the basic formatting model (`PypyrModel/Fmt.lean`) and truth rule. -/
import Lean.Data.Json
import PypyrModel.Json
import PypyrModel.Fmt

namespace Pypyr.OpFmt
open Lean (Json)

def fuelOf (j : Json) : Nat :=
  match j.getObjVal? "fuel" with
  | .ok f => (jsonNat? f).toOption.getD 64
  | .error _ => 64

def excToResult {α} (f : α → Json) (r : Except Exc α) : Except String Json :=
  match r with
  | .error e => if e.name == "OutOfDomain" then .error ("out of domain: " ++ e.msg)
                else .ok (Json.mkObj [("err", e.toJson)])
  | .ok a => .ok (Json.mkObj [("ok", f a)])

/-- ops: `fmt` {ctx, v} → formatted value; `asbool` {ctx, v} → bool; `truth` {v} → cast_to_bool;
    `repr` {v} → str/repr text; `pieces` {s} → parse. -/
def handle (op : String) (j : Json) : Except String Json := do
  match op with
  | "fmt" =>
    let ctx ← Ctx.ofJson (← j.getObjVal? "ctx")
    let v ← Val.ofJson (← j.getObjVal? "v")
    excToResult Val.toJson (fmtVal (fuelOf j) ctx v)
  | "asbool" =>
    let ctx ← Ctx.ofJson (← j.getObjVal? "ctx")
    let v ← Val.ofJson (← j.getObjVal? "v")
    excToResult Json.bool (fmtAsBool (fuelOf j) ctx v)
  | "truth" =>
    let v ← Val.ofJson (← j.getObjVal? "v")
    pure (Json.mkObj [("ok", Json.bool (castToBool v))])
  | "repr" =>
    let v ← Val.ofJson (← j.getObjVal? "v")
    pure (Json.mkObj [("str", Json.str (pyStr v)), ("repr", Json.str (pyRepr v)),
                      ("json", match jsonDumps v with | some s => Json.str s | none => Json.null)])
  | _ => .error s!"unknown op {op}"

end Pypyr.OpFmt
