/- Driver ops for the FsRewrite model (C15). -/
import Lean.Data.Json
import PypyrModel.Json
import PypyrModel.FsRewrite

namespace Pypyr.OpFsRewrite
open Lean (Json)
open Pypyr.FsRewrite

def fsOfJson (j : Json) : Except String Fs := do
  let arr ← j.getArr?
  let prs ← arr.toList.mapM fun p => do
    match p with
    | .arr #[k, v] => pure ((← k.getStr?), (← v.getStr?))
    | _ => throw "fs entry must be [name, bytes]"
  -- names must be unique
  let names := prs.map (·.1)
  if names.eraseDups.length != names.length then throw "duplicate names in fs"
  pure prs

def fsToJson (fs : Fs) : Json :=
  Json.arr (fs.map fun (k, v) => Json.arr #[Json.str k, Json.str v]).toArray

def strList (j : Json) : Except String (List String) := do
  (← j.getArr?).toList.mapM Json.getStr?

def jobOfJson (j : Json) : Except String Job := do
  let src ← (← j.getObjVal? "src").getStr?
  let out ← match j.getObjVal? "out" with
    | .ok .null => pure none
    | .ok o => do pure (some (← o.getStr?))
    | .error _ => pure none
  let tmp ← (← j.getObjVal? "tmp").getStr?
  let chunks ← strList (← j.getObjVal? "chunks")
  let style ← (← j.getObjVal? "style").getStr?
  -- StreamRewriter closes the source after the temp file, ObjectRewriter right after `load`
  let (body, early) ← match style with
    | "stream" => pure (streamBody 1 chunks, false)
    | "object" => pure (objectBody chunks, true)
    | s => throw s!"unknown style {s}"
  -- `dst`: the in path's last component is a symlink; the link's own directory entry
  let dst ← match j.getObjVal? "dst" with
    | .ok .null => pure none
    | .ok d => do pure (some (← d.getStr?))
    | .error _ => pure none
  pure { src, out, tmp, body, early, dst }

/-- links on the wire: `{"entry": [[spelling, entry]], "ino": [[entry, id]]}` (keys distinct). -/
def linksOfJson (j : Json) : Except String Links := do
  let entry ← fsOfJson (← j.getObjVal? "entry")
  let inoArr ← (← j.getObjVal? "ino").getArr?
  let ino ← inoArr.toList.mapM fun p => do
    match p with
    | .arr #[k, v] => pure ((← k.getStr?), (← jsonNat? v))
    | _ => throw "ino entry must be [name, id]"
  if (ino.map (·.1)).eraseDups.length != ino.length then throw "duplicate names in ino"
  pure { entry, ino }

/-- The route of every job the loop reaches when nothing faults (for the route comparison). -/
def routesOf : Links → Fs → List Job → List String
  | _, _, [] => []
  | l, fs, j :: js =>
    let r := runJobL {} Plan.clean 0 l fs j
    (match route l fs j with
      | none => "inplace"
      | some o => "direct:" ++ o) :: routesOf (linksAfter l fs j) (final fs r.2) js

def faultOfStr : String → Except String Fault
  | "raise" => pure .raise
  | "raiseBase" => pure .raiseBase
  | "kill" => pure .kill
  | s => throw s!"unknown fault kind {s}"

/-- plan on the wire: list of `[index, "raise"|"raiseBase"|"kill"]` (distinct indices). -/
def planOfJson (j : Json) : Except String Plan := do
  let entries ← (← j.getArr?).toList.mapM fun p => do
    match p with
    | .arr #[i, k] => pure ((← jsonNat? i), (← faultOfStr (← k.getStr?)))
    | _ => throw "plan entry must be [index, kind]"
  pure fun i => match entries.find? (·.1 == i) with
    | some (_, k) => k
    | none => .none

def outcomeToJson : Outcome → Json
  | .ok => Json.mkObj [("end", "ok")]
  | .raised i => Json.mkObj [("end", "raised"), ("at", i)]
  | .killed i => Json.mkObj [("end", "killed"), ("at", i)]

def endOfStr : String → Except String End
  | "ok" => pure .ok
  | "raised" => pure .raised
  | "killed" => pure .killed
  | s => throw s!"unknown end {s}"

def verdictToJson (v : Verdict) : Json :=
  Json.mkObj [("holds", v.holds), ("holdsDirty", v.holdsDirty), ("srcWhole", v.srcWhole), ("okAllNew", v.okAllNew),
    ("noExtra", v.noExtra), ("noneMissing", v.noneMissing), ("unmatchedSame", v.unmatchedSame),
    ("onlyTempExtra", v.onlyTempExtra)]

/-- ops:
    `run`   {fs, jobs, plan, cleanup?, cleanupBase?, closeInTry?, links?, outopt?} → {outcome, final, events, routes, wholeEverywhere, outplan}
            (`links` absent = no link table: a name is its own inode; job `out` is a path spelling;
             job = {src, out?, tmp, chunks, style: stream|object, dst?}: `dst` = the link's own entry when the in
             path's last component is a symlink; sources may repeat; plan kinds raise | raiseBase | kill)
    `judge` {before, after, srcs: [[name, newBytes]], end} → verdict of the C15 monitor. -/
def handle (op : String) (j : Json) : Except String Json := do
  match op with
  | "run" =>
    let fs ← fsOfJson (← j.getObjVal? "fs")
    let jobs ← (← (← j.getObjVal? "jobs").getArr?).toList.mapM jobOfJson
    let plan ← planOfJson (← j.getObjVal? "plan")
    let cleanup ← match j.getObjVal? "cleanup" with
      | .ok b => b.getBool?
      | .error _ => pure true
    -- the earlier `except` arrangements (default: the code as it is now)
    let cleanupBase ← match j.getObjVal? "cleanupBase" with
      | .ok b => b.getBool?
      | .error _ => pure true
    let closeInTry ← match j.getObjVal? "closeInTry" with
      | .ok b => b.getBool?
      | .error _ => pure true
    let links ← match j.getObjVal? "links" with
      | .ok .null => pure ({} : Links)
      | .ok lj => linksOfJson lj
      | .error _ => pure ({} : Links)
    for jb in jobs do
      if fs.contains jb.tmp then throw s!"temp name {jb.tmp} not fresh"
      if jobs.any (·.src == jb.tmp) then throw s!"temp name {jb.tmp} is a source"
      if links.resolve jb.src != jb.src then throw s!"source {jb.src} is not a resolved entry"
      match jb.dst with
      | none => pure ()
      | some d =>
        if fs.contains d then throw s!"link entry {d} is a regular file"
        if d == jb.tmp then throw s!"link entry {d} is the temp name"
    for e in links.ino do
      if !fs.contains e.1 then throw s!"ino names {e.1}, not in fs"
    for e in links.entry do
      if links.resolve e.2 != e.2 then throw s!"entry target {e.2} is not a resolved entry"
    -- coherence: entries that are links to one inode hold the same bytes
    for e in links.ino do
      for e' in links.ino do
        if e.2 == e'.2 && fs.get? e.1 != fs.get? e'.1 then throw s!"hard links {e.1} {e'.1} differ"
    -- `outopt` {value: null|string, isdir: bool, nin: n}: the step's `out` option; the per-file out is then
    -- what the model's `planOut` yields (the jobs' own `out` fields are ignored)
    let outopt ← match j.getObjVal? "outopt" with
      | .ok .null => pure none
      | .ok oj => do
        let v ← match oj.getObjVal? "value" with
          | .ok .null => pure none
          | .ok s => do pure (some (← s.getStr?))
          | .error _ => pure none
        let isdir ← (← oj.getObjVal? "isdir").getBool?
        let nin ← jsonNat? (← oj.getObjVal? "nin")
        pure (some (v, isdir, nin))
      | .error _ => pure none
    let op : Option OutPlan := outopt.map fun (v, isdir, nin) => planOut v isdir nin
    let jobs : List Job := match op with
      | none => jobs
      | some p => jobs.map (Job.withOut p)
    let planName : String := match op with
      | none => "per-job"
      | some .inplace => "inplace"
      | some (.intoDir _) => "dir"
      | some (.toFile _) => "file"
      | some .tooMany => "toomany"
    let tooMany : Bool := op == some OutPlan.tooMany
    if tooMany then
      return Json.mkObj [
        ("outcome", outcomeToJson (.raised 0)), ("final", fsToJson fs), ("events", Json.arr #[]),
        ("routes", Json.arr #[]), ("wholeEverywhere", true), ("outplan", planName)]
    let r := runJobsL { cleanupWrite := cleanup, cleanupBase, closeInTry } plan 0 links fs jobs
    -- the monitor evaluated on every state of the model's own trace (sanity, also proved)
    -- (jobs whose in path is a symlink replace the link, not a regular file of `fs`: not part of this sanity check)
    let srcs := (jobs.filter fun jb => jb.dst.isNone && (route links fs jb).isNone).map
      fun jb => (jb.src, newContent jb.body)
    let whole := r.2.all fun ev => (judge fs ev.2 srcs .killed).srcWhole
    pure (Json.mkObj [
      ("outcome", outcomeToJson r.1),
      ("final", fsToJson (final fs r.2)),
      ("events", Json.arr (r.2.map fun ev => Json.str ev.1).toArray),
      ("routes", Json.arr ((routesOf links fs jobs).map Json.str).toArray),
      ("wholeEverywhere", whole), ("outplan", planName)])
  | "judge" =>
    let before ← fsOfJson (← j.getObjVal? "before")
    let after ← fsOfJson (← j.getObjVal? "after")
    -- [[name, newBytes]], one pair per rewrite: a source matched more than once appears more than once
    let srcs ← (← (← j.getObjVal? "srcs").getArr?).toList.mapM fun p => do
      match p with
      | .arr #[k, v] => pure ((← k.getStr?), (← v.getStr?))
      | _ => throw "srcs entry must be [name, bytes]"
    let e ← endOfStr (← (← j.getObjVal? "end").getStr?)
    pure (verdictToJson (judge before after srcs e))
  | _ => .error s!"unknown op {op}"

end Pypyr.OpFsRewrite
