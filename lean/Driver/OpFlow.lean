/- Driver ops for the flow interpreter model (PypyrModel/Flow/*). -/
import Lean.Data.Json
import PypyrModel.Json
import PypyrModel.Flow.Runner

namespace Pypyr.OpFlow
open Lean (Json)
open Pypyr Pypyr.Flow

def optVal (j : Json) (k : String) : Except String (Option Val) :=
  match j.getObjVal? k with
  | .ok v => (Val.ofJson v).map some
  | .error _ => .ok none

def getD (j : Json) (k : String) (d : Val) : Except String Val := do
  pure ((← optVal j k).getD d)

def optStrField (j : Json) (k : String) : Except String (Option String) :=
  match j.getObjVal? k with
  | .ok (.str s) => .ok (some s)
  | .ok .null => .ok none
  | .ok _ => .error s!"{k} must be a string"
  | .error _ => .ok none

def optNat (j : Json) (k : String) : Except String (Option Nat) :=
  match j.getObjVal? k with
  | .ok .null => .ok none
  | .ok v => (jsonNat? v).map some
  | .error _ => .ok none

def strArr (j : Json) : Except String (List String) := do
  (← j.getArr?).toList.mapM fun x => x.getStr?

def whileOfJson (j : Json) : Except String WhileCfg := do
  pure { max := ← optVal j "max", stop := ← optVal j "stop",
         sleep := ← getD j "sleep" (.int 0), errorOnMax := ← getD j "errorOnMax" (.bool false) }

def retryOfJson (j : Json) : Except String RetryCfg := do
  pure { max := ← optVal j "max", sleep := ← getD j "sleep" (.int 0), backoff := ← optVal j "backoff",
         sleepMax := ← optVal j "sleepMax", jrc := ← getD j "jrc" (.int 0),
         backoffArgs := ← optVal j "backoffArgs", stopOn := ← optVal j "stopOn", retryOn := ← optVal j "retryOn" }

/-- `None`-valued decorator keys behave like absent ones (`step.get(k, default)` returns None,
    and `None` is falsy / replaced by the default where the code says so). -/
def stepOfJson (j : Json) : Except String StepDef := do
  match j with
  | .str n => pure { name := some n, simple := true }
  | _ =>
    -- a sequence item that is neither a string nor a mapping: `{"item": Val}`
    if let .ok it := j.getObjVal? "item" then
      match ← Val.ofJson it with
      | .dict _ => throw "a mapping item is a complex step"
      | .bytes _ | .tuple _ | .obj _ => throw "item not expressible in yaml"
      | v => return itemStep v
    -- `name`: a string, null/absent, or (a yaml slip) any other value
    let (name, rawName) ← match j.getObjVal? "name" with
      | .ok (.str s) => pure (some s, none)
      | .ok .null => pure (none, none)
      | .ok v => do
          match ← Val.ofJson v with
          | .bytes _ | .tuple _ | .obj _ => throw "name not expressible in yaml"
          | w => pure (none, some w)
      | .error _ => pure (none, none)
    -- `in`: a list of pairs (a mapping with string keys), null, or `{"bad": Val}`: something that is no mapping
    let (inArgs, inBad) ← match j.getObjVal? "in" with
      | .ok .null => pure (none, none)
      | .ok (.arr a) => do
          let prs ← a.toList.mapM fun p => match p with
            | .arr #[.str k, v] => do pure (k, ← Val.ofJson v)
            | _ => throw "bad in pair"
          pure (some prs, none)
      | .ok o => do
          match ← Val.ofJson (← o.getObjVal? "bad") with
          | .str t => if t == "" then pure (some [], none) else pure (none, some (Val.str t))
          | .int i => pure (none, some (Val.int i))
          | .flt n k => pure (none, some (Val.flt n k))
          | .bool b => pure (none, some (Val.bool b))
          | _ => throw "`in` outside the modelled shapes"
      | .error _ => pure (none, none)
    -- `while_definition = step.get('while'); if while_definition: WhileDecorator(...)`: a falsy value - null,
    -- an empty mapping `{}`, 0, '' - declares nothing; a truthy value that is no mapping is `{"bad": Val}`
    let isEmptyObj (w : Json) : Bool := match w with | .obj kvs => kvs.isEmpty | _ => false
    let (wcfg, wbad) ← match j.getObjVal? "while" with
      | .ok w => match w.getObjVal? "bad" with
        | .ok b => do pure (none, (← Val.ofJson b).truthy)
        | .error _ => if isEmptyObj w then pure (none, false) else do pure (some (← whileOfJson w), false)
      | .error _ => pure (none, false)
    let (rcfg, rbad) ← match j.getObjVal? "retry" with
      | .ok w => match w.getObjVal? "bad" with
        | .ok b => do pure (none, (← Val.ofJson b).truthy)
        | .error _ => if isEmptyObj w then pure (none, false) else do pure (some (← retryOfJson w), false)
      | .error _ => pure (none, false)
    -- the wire carries the 1-based position the renderer recorded; ruamel's `lc` is 0-based
    let lc : Option (Nat × Nat) ← match ← optNat j "line", ← optNat j "col" with
      | some l, some c => if l == 0 || c == 0 then throw "line/col are 1-based" else pure (some (l - 1, c - 1))
      | none, none => pure none
      | _, _ => throw "line and col go together"
    pure { name, rawName, simple := false, inArgs, inBad,
           run := ← getD j "run" (.bool true), skip := ← getD j "skip" (.bool false),
           swallow := ← getD j "swallow" (.bool false), foreach := ← optVal j "foreach",
           while_ := wcfg, whileBad := wbad, retry := rcfg, retryBad := rbad,
           onError := ← optVal j "onError", description := ← optVal j "description", lc }

def pipeOfJson (j : Json) : Except String PipeDef := do
  let name ← (← j.getObjVal? "name").getStr?
  let parser ← optStrField j "parser"
  let groups ← (← (← j.getObjVal? "groups").getArr?).toList.mapM fun g => match g with
    | .arr #[.str gn, .null] => pure (gn, GroupBody.null)
    | .arr #[.str gn, .arr steps] => do
        let ss ← steps.toList.mapM stepOfJson
        pure (gn, GroupBody.steps ss)
    | .arr #[.str gn, body] => do
        -- a body that is not a sequence: `{"scalar": Val}`
        match ← Val.ofJson (← body.getObjVal? "scalar") with
        | .none => pure (gn, GroupBody.null)
        | .str t => pure (gn, GroupBody.str t)
        | .dict kvs => pure (gn, GroupBody.mapping (kvs.map (·.1)))
        | .int _ | .flt _ _ | .bool _ | .sic _ | .py _ | .jsonify _ => pure (gn, GroupBody.unsized)
        | _ => throw "group body outside the modelled shapes"
    | _ => throw "bad group"
  pure { name, parser, groups }

def optValJson (o : Option Val) : Json := match o with | some v => v.toJson | none => Json.mkObj [("missing", Json.num 1)]

def eventToJson (e : Event) : Json :=
  Json.mkObj [("tag", Json.str e.tag), ("i", optValJson e.i), ("w", optValJson e.w), ("r", optValJson e.r),
    ("nerr", Json.num (Lean.JsonNumber.fromNat e.nerr)), ("pipe", Json.str e.pipe),
    ("depth", Json.num (Lean.JsonNumber.fromNat e.depth)),
    ("keys", Json.arr (e.keys.map fun (k, v) => Json.arr #[Json.str k, optValJson v]).toArray)]

def resToJson : Res → Json
  | .ok => Json.str "ok"
  | .err e h => Json.mkObj [("err", Json.mkObj [("id", Json.num (Lean.JsonNumber.fromNat e.id)),
      ("name", Json.str e.name), ("msg", Json.str e.msg), ("handled", Json.bool h)])]
  | .stop => Json.str "stop"
  | .stopPipeline => Json.str "stopPipeline"
  | .stopGroup => Json.str "stopGroup"
  | .jump _ => Json.str "jump"
  | .call _ => Json.str "call"
  | .outOfFuel => Json.str "outOfFuel"

def numOfJson (j : Json) : Except String Num :=
  match j with
  | .arr #[n, k] => do pure ⟨← jsonInt? n, ← jsonNat? k, true⟩
  | _ => .error "bad num"

def hasOutOfDomain (s : St) (r : Res) : Bool :=
  match r with
  | .err e _ => e.name == "OutOfDomain"
  | _ => (match Ctx.get? s.ctx "runErrors" with
    | some (.list xs) => xs.any fun x => match x with
      | .dict kvs => dictGet? kvs (.str "name") == some (.str "OutOfDomain")
      | _ => false
    | _ => false)

/-- `pipelinerunner.run(name, args_in, parse_args, dict_in, groups, success_group, failure_group)`. -/
def handle (op : String) (j : Json) : Except String Json := do
  match op with
  | "run" =>
    let pipes ← (← (← j.getObjVal? "pipes").getArr?).toList.mapM pipeOfJson
    let run ← j.getObjVal? "run"
    let name ← (← run.getObjVal? "name").getStr?
    let argsIn : Option (List String) ← match run.getObjVal? "args_in" with
      | .ok .null => pure none
      | .ok a => do pure (some (← strArr a))
      | .error _ => pure none
    let dictIn : Option Ctx ← match run.getObjVal? "dict_in" with
      | .ok .null => pure none
      | .ok d => do pure (some (← Ctx.ofJson d))
      | .error _ => pure none
    let parseArgs : Option Bool := match run.getObjVal? "parse_args" with
      | .ok (.bool b) => some b
      | _ => none
    -- `groups`: a list of names; a string is iterated character by character; a truthy number cannot be iterated
    let (groups, groupsBad) : Option (List String) × Bool ← match run.getObjVal? "groups" with
      | .ok .null => pure (none, false)
      | .ok (.str t) => pure (some (t.toList.map fun c => String.singleton c), false)
      | .ok (.bool b) => pure (none, b)
      | .ok (.num n) => pure (none, n.mantissa != 0)
      | .ok a => do pure (some (← strArr a), false)
      | .error _ => pure (none, false)
    let success ← optStrField run "success"
    let failure ← optStrField run "failure"
    let rnd ← match j.getObjVal? "rnd" with
      | .ok a => (← a.getArr?).toList.mapM numOfJson
      | .error _ => pure []
    let fuel := match j.getObjVal? "fuel" with
      | .ok f => (jsonNat? f).toOption.getD 2000
      | .error _ => 2000
    -- Pipeline._get_parse_input
    let argsEmpty := match argsIn with | some (_ :: _) => false | _ => true
    let parseInput := match parseArgs with
      | some b => b
      | none => !(argsEmpty && dictIn.isSome)
    let pi : PipeInst := { name, groups, success, failure, parseInput, contextArgs := argsIn, groupsBad }
    -- `config.default_backoff` as it stands while the run executes (set after start-up by a config file or the API)
    let defaultBackoff := match run.getObjVal? "default_backoff" with
      | .ok (.str b) => b
      | _ => "fixed"
    let s0 : St := { ctx := dictIn.getD [], rnd, defaultBackoff }
    let (s1, r) := runRoot fuel ⟨pipes⟩ pi s0
    if s1.ood || hasOutOfDomain s1 r then throw "out of domain"
    pure (Json.mkObj [("trace", Json.arr (s1.trace.map eventToJson).toArray),
      ("sleeps", Json.arr (s1.sleeps.map Val.toJson).toArray),
      ("outcome", resToJson r), ("ctx", Ctx.toJson s1.ctx),
      ("stack", Json.arr (s1.stack.map Json.str).toArray)])
  | _ => .error s!"unknown op {op}"

end Pypyr.OpFlow
