/- Driver ops for the cache transition system (`PypyrModel/CacheTS.lean`).

   cache.run     {threads: [[op…]…], sched: [tid…], seed: [[k,id]…], fails: [n…], noCache: bool,
                  keys: n, mode: "turn"|"micro", finish: bool}
                 op = {"get": k} | "clear"
                 → {hist: [ev…] (oldest first), results: [[res…]…] (oldest first), cache: [[k,id]…],
                    calls: n, lock: tid|null, done: bool}
                 ev = ["hit",t,k,c] | ["create",t,k,c] | ["fail",t,k,c] | ["clear",t]
                 res = ["val",c] | ["raised",c] | ["cleared"]
   cache.enum    {threads, seed, fails, noCache, limit: n} → {count: n, scheds: [[tid…]…] | null (count > limit)}
   cache.judge   {hist: [ev…] (oldest first), seed, fails} → {spec: bool, distinct: bool, ok: bool}
   cache.key     {truthy: bool, parent: str, name: str} → {key: ["pair",p,n]|["bare",n], old: str}
   cache.session {rqs: [{truthy: bool, parent: str, name: str}…], world: W, noCache: bool,
                  ops: [["run",c,l,rq] | ["world",W] | ["clearAll"] | ["clearLoaders"] | ["clearPipes",l|null]
                        | ["clearSeq",[cache name…],[[op…]…]] | ["clearPipesSeq",[l…],[[op…]…]]
                        | ["clearFiles"] | ["clearSteps"] | ["noCache",b]…]}
                 W = {resolve: [[rq, file|null]…], fileVer: [[file, ver]…], custom: [[l, rq, ver|null]…]}
                 (requests not listed resolve to nothing / raise)
                 → {runs: [{ran: ver|null, loaderMade, defMade, fileRead, stepMade: bool, clean: bool,
                            fresh: ver|null}…]}   (`CacheTS.Stack.session` from the initial state; a world may carry "bad": [ver…], the versions
                            whose content is not a mapping at the top level)
   cache.syspath {threads: [[p…]…], sched, exists: [p…], base: [p…], finish: bool}
                 → {sysPath: [p…], known: [p…] (sorted, deduplicated), done: bool}
   cache.syspathf same request; the fine-grained system `fStep` (one set operation per step; turns park before
                 every operation on `_known_dirs` / `_missing_dirs`) → same answer + missing: [p…]
   cache.scan    {threads: [[sop…]…], sched, seed, fails, keys, finish}   sop = op | "clearPipes" | {"clearPipesOf": k}
                 (`CacheTS.Scan`: `LoaderCache.clear_pipes` next to look-ups; turn level; cached mode; the reserved key is `keys`)
                 → the `cache.run` answer + sweeps: [[["swept"|"sizeChanged", [c…]]…]…] (per thread, oldest first)
   cache.nest    {threads: [[nop…]…], sched, failsO, failsI, keys, finish}
                 nop = ["getO",ko,ki] | ["getI",ki] | ["clearO"] | ["clearI"] | ["getRe",ko,ko']   (`CacheTS.Nest`; turn level)
                 → {histO, histI, results, cacheO, cacheI, callsO, callsI, lockO, lockI, done, stuck: [tid…]}
   cache.nestenum {threads, failsO, failsI, limit} → {count, scheds | null}
-/
import Lean.Data.Json
import PypyrModel.Json
import PypyrModel.CacheTS

namespace Pypyr.OpCache
open Lean (Json)
open Pypyr.CacheTS

def natList (j : Json) : Except String (List Nat) := do
  let arr ← j.getArr?
  arr.toList.mapM jsonNat?

def opOfJson (j : Json) : Except String Op :=
  match j with
  | .str "clear" => pure .clear
  | _ => do
    let k ← jsonNat? (← j.getObjVal? "get")
    pure (.get k)

def evToJson : Ev → Json
  | .hit t k c => Json.arr #[Json.str "hit", t, k, c]
  | .create t k c => Json.arr #[Json.str "create", t, k, c]
  | .fail t k c => Json.arr #[Json.str "fail", t, k, c]
  | .clear t => Json.arr #[Json.str "clear", t]

def evOfJson (j : Json) : Except String Ev := do
  let arr ← j.getArr?
  match arr.toList with
  | [Json.str "hit", t, k, c] => pure (.hit (← jsonNat? t) (← jsonNat? k) (← jsonNat? c))
  | [Json.str "create", t, k, c] => pure (.create (← jsonNat? t) (← jsonNat? k) (← jsonNat? c))
  | [Json.str "fail", t, k, c] => pure (.fail (← jsonNat? t) (← jsonNat? k) (← jsonNat? c))
  | [Json.str "clear", t] => pure (.clear (← jsonNat? t))
  | _ => .error "bad event"

def resToJson : Res → Json
  | .val c => Json.arr #[Json.str "val", c]
  | .raised c => Json.arr #[Json.str "raised", c]
  | .cleared => Json.arr #[Json.str "cleared"]

def seedOfJson (j : Json) : Except String (Key → Option Obj) := do
  let arr ← j.getArr?
  let pairs ← arr.toList.mapM fun p => do
    match (← p.getArr?).toList with
    | [k, c] => pure ((← jsonNat? k), (← jsonNat? c))
    | _ => .error "bad seed pair"
  pure fun k => (pairs.find? (·.1 == k)).map (·.2)

def cfgOfJson (j : Json) : Except String Cfg := do
  let seed ← seedOfJson (← j.getObjVal? "seed")
  let fails ← natList (← j.getObjVal? "fails")
  let noCache ← match j.getObjVal? "noCache" with
    | .ok b => b.getBool?
    | .error _ => pure false
  pure { seed := seed, fails := fun n => fails.contains n, noCache := noCache }

def boolField (j : Json) (name : String) : Except String Bool := do
  (← j.getObjVal? name).getBool?

/-- all maximal turn-level schedules in which every entry is an enabled thread -/
def enumScheds (cfg : Cfg) (n : Nat) : Nat → State → List (List Tid)
  | 0, _ => [[]]
  | fuel + 1, st =>
    let en := (List.range n).filter (enabled st)
    if en.isEmpty then [[]]
    else en.flatMap fun t => (enumScheds cfg n fuel (turn cfg st t)).map (t :: ·)

/-- number of such schedules (without building them) -/
def countScheds (cfg : Cfg) (n : Nat) : Nat → State → Nat
  | 0, _ => 1
  | fuel + 1, st =>
    let en := (List.range n).filter (enabled st)
    if en.isEmpty then 1
    else (en.map fun t => countScheds cfg n fuel (turn cfg st t)).sum

def progsOfJson (j : Json) : Except String (List (List Op)) := do
  (← (← j.getObjVal? "threads").getArr?).toList.mapM fun p => do
    (← p.getArr?).toList.mapM opOfJson


/-! ### `cache.session`: the layers above the caches (`CacheTS.Stack`) -/
section StackOps
open Pypyr.CacheTS.Stack

def rqOfJson (j : Json) : Except String Rq := do
  pure { pt := ← boolField j "truthy", ps := ← (← j.getObjVal? "parent").getStr?,
         name := ← (← j.getObjVal? "name").getStr? }

def optNat (j : Json) : Except String (Option Nat) :=
  match j with
  | .null => pure none
  | _ => (jsonNat? j).map some

def worldOfJson (rqs : Array Rq) (j : Json) : Except String World := do
  let rq (i : Nat) : Except String Rq := match rqs[i]? with
    | some r => pure r
    | none => .error "request index out of range"
  let res ← (← (← j.getObjVal? "resolve").getArr?).toList.mapM fun e => do
    match (← e.getArr?).toList with
    | [i, f] => pure ((← rq (← jsonNat? i)), (← optNat f))
    | _ => .error "bad resolve entry"
  let fv ← (← (← j.getObjVal? "fileVer").getArr?).toList.mapM fun e => do
    match (← e.getArr?).toList with
    | [f, v] => pure ((← jsonNat? f), (← jsonNat? v))
    | _ => .error "bad fileVer entry"
  let cu ← (← (← j.getObjVal? "custom").getArr?).toList.mapM fun e => do
    match (← e.getArr?).toList with
    | [l, i, v] => pure ((← jsonNat? l), (← rq (← jsonNat? i)), (← optNat v))
    | _ => .error "bad custom entry"
  -- versions whose content has no mapping at the top level (absent field: none)
  let bad ← match j.getObjVal? "bad" with
    | .ok b => (← b.getArr?).toList.mapM jsonNat?
    | .error _ => pure []
  -- falsy parents all mean "no parent": look requests up by their cache key
  pure { mapping := fun v => !bad.contains v
         resolve := fun r => ((res.find? (fun e => e.1.key == r.key)).map (·.2)).join
         fileVer := fun f => ((fv.find? (·.1 == f)).map (·.2)).getD 0
         custom := fun l r => ((cu.find? (fun e => e.1 == l && e.2.1.key == r.key)).map (·.2.2)).join }

def lopOfJson (rqs : Array Rq) (j : Json) : Except String LOp := do
  match (← j.getArr?).toList with
  | [.str "run", c, l, i] =>
    match rqs[(← jsonNat? i)]? with
    | some r => pure (.run (← jsonNat? c) (← jsonNat? l) r)
    | none => .error "request index out of range"
  | [.str "world", w] => pure (.world (← worldOfJson rqs w))
  | [.str "clearAll"] => pure .clearAll
  | [.str "clearLoaders"] => pure .clearLoaders
  | [.str "clearPipes", l] => pure (.clearPipes (← optNat l))
  | [.str "clearFiles"] => pure .clearFiles
  | [.str "clearSteps"] => pure .clearSteps
  | [.str "noCache", .bool b] => pure (.setNoCache b)
  | _ => .error "bad session op"

/-- one wire operation → the model operations it stands for. `["clearSeq", [cache name…], [[op…]…]]` =
    `clear_all` as the sequence of `<name>.clear()` calls given (the harness reads the names off
    pypyr/cache/admin.py), `gaps[i]` = what other threads complete before the i-th of ALL named clears
    (also those with no counterpart in the model), `gaps[n]` after the last; `["clearPipesSeq", [l…], gaps]`
    likewise for the `Loader.clear()` calls of `clear_pipes()`. -/
def lopsOfJson (rqs : Array Rq) (j : Json) : Except String (List LOp) := do
  let gapsOf (g : Json) : Except String (List (List LOp)) := do
    (← g.getArr?).toList.mapM fun e => do (← e.getArr?).toList.mapM (lopOfJson rqs)
  let rec weaveOpt (gaps : List (List LOp)) : List (Option LOp) → List LOp
    | [] => gaps.flatten
    | c :: cs => (gaps.headD []) ++ (c.toList ++ weaveOpt gaps.tail cs)
  match (← j.getArr?).toList with
  | [.str "clearSeq", names, gaps] =>
    let ns ← (← names.getArr?).toList.mapM (·.getStr?)
    pure (weaveOpt (← gapsOf gaps) (ns.map clearOpOf))
  | [.str "clearPipesSeq", ls, gaps] =>
    let ls ← (← ls.getArr?).toList.mapM jsonNat?
    pure (weaveOpt (← gapsOf gaps) (ls.map fun l => some (.clearPipes (some l))))
  | _ => do pure [← lopOfJson rqs j]

def optNatJson : Option Nat → Json
  | some n => (n : Json)
  | none => Json.null

def handleSession (j : Json) : Except String Json := do
  let rqs ← (← (← j.getObjVal? "rqs").getArr?).mapM rqOfJson
  let w ← worldOfJson rqs (← j.getObjVal? "world")
  let nc ← boolField j "noCache"
  let ops ← (← (← j.getObjVal? "ops").getArr?).toList.mapM (lopsOfJson rqs)
  let out := session w { LState.init with noCache := nc } Flags.none ops.flatten
  pure (Json.mkObj [("runs", Json.arr (out.map fun x => Json.mkObj [
    ("ran", optNatJson x.1.ran), ("loaderMade", Json.bool x.1.loaderMade), ("defMade", Json.bool x.1.defMade),
    ("fileRead", Json.bool x.1.fileRead), ("stepMade", Json.bool x.1.stepMade),
    ("clean", Json.bool x.2.1), ("fresh", optNatJson x.2.2)]).toArray)])

end StackOps

/-! ### `cache.scan`: `LoaderCache.clear_pipes()` next to look-ups (`CacheTS.Scan`) -/
section ScanOps
open Pypyr.CacheTS.Scan

def sopOfJson (j : Json) : Except String SOp :=
  match j with
  | .str "clearPipes" => pure .clearPipes
  | _ => match j.getObjVal? "clearPipesOf" with
    | .ok k => do pure (.clearPipesOf (← jsonNat? k))
    | .error _ => (opOfJson j).map .base

def sresToJson : SRes → Json
  | .swept cs => Json.arr #[Json.str "swept", Json.arr (cs.map fun (c : Nat) => (c : Json)).toArray]
  | .sizeChanged cs => Json.arr #[Json.str "sizeChanged", Json.arr (cs.map fun (c : Nat) => (c : Json)).toArray]

/-- id of the reserved entry whose look-up is the snapshot's critical section -/
def snapObj : Nat := 999999

def evKey? : Ev → Option Key
  | .hit _ k _ | .create _ k _ | .fail _ k _ => some k
  | .clear _ => none

def handleScan (j : Json) : Except String Json := do
  let cfg0 ← cfgOfJson j
  if cfg0.noCache then .error "cache.scan: cached mode only"
  let progs ← (← (← j.getObjVal? "threads").getArr?).toList.mapM fun p => do
    (← p.getArr?).toList.mapM sopOfJson
  let sched ← natList (← j.getObjVal? "sched")
  let nkeys ← jsonNat? (← j.getObjVal? "keys")
  let fin ← boolField j "finish"
  let n := progs.length
  if sched.any (· ≥ n) then .error "schedule names a thread that does not exist"
  -- the reserved key is the first one the programs do not use
  let sk := nkeys
  let cfg : Cfg := { cfg0 with seed := fun k => if k = sk then some snapObj else cfg0.seed k }
  let x0 := xinit cfg (fun t => (progs[t]?).getD [])
  let x1 := xrunTurns cfg sk x0 sched
  let totalOps := (progs.map List.length).sum
  let x := if fin then xfinish cfg sk n (16 * totalOps + 16) x1 else x1
  let st := x.base
  let done := (List.range n).all fun t =>
    (st.threads t).pc == .idle && (st.threads t).ops.isEmpty && (x.scan t).sops.isEmpty && (x.scan t).spc == .off
  let cacheJ := (List.range nkeys).filterMap fun k =>
    (st.cache k).map fun c => Json.arr #[(k : Json), (c : Json)]
  pure (Json.mkObj [
    ("hist", Json.arr ((st.hist.reverse.filter fun e => evKey? e != some sk).map evToJson).toArray),
    ("results", Json.arr ((List.range n).map fun t =>
        Json.arr (((st.threads t).results.reverse.filter (· != .val snapObj)).map resToJson).toArray).toArray),
    ("sweeps", Json.arr ((List.range n).map fun t =>
        Json.arr ((x.scan t).sres.reverse.map sresToJson).toArray).toArray),
    ("cache", Json.arr cacheJ.toArray),
    ("calls", (st.calls : Json)),
    ("done", Json.bool done)])

end ScanOps

/-! ### `cache.nest`: two locks (`CacheTS.Nest`) -/
section NestOps
open Pypyr.CacheTS.Nest

def nopOfJson (j : Json) : Except String NOp := do
  match (← j.getArr?).toList with
  | [.str "getO", ko, ki] => pure (.getO (← jsonNat? ko) (← jsonNat? ki))
  | [.str "getI", ki] => pure (.getI (← jsonNat? ki))
  | [.str "clearO"] => pure .clearO
  | [.str "clearI"] => pure .clearI
  | [.str "getRe", ko, ko'] => pure (.getRe (← jsonNat? ko) (← jsonNat? ko'))
  | _ => .error "bad nest op"

def ncfgOfJson (j : Json) : Except String NCfg := do
  let fo ← natList (← j.getObjVal? "failsO")
  let fi ← natList (← j.getObjVal? "failsI")
  pure { failsO := fun n => fo.contains n, failsI := fun n => fi.contains n }

def nprogsOfJson (j : Json) : Except String (List (List NOp)) := do
  (← (← j.getObjVal? "threads").getArr?).toList.mapM fun p => do
    (← p.getArr?).toList.mapM nopOfJson

def nenumScheds (cfg : NCfg) (n : Nat) : Nat → NState → List (List Tid)
  | 0, _ => [[]]
  | fuel + 1, st =>
    let en := (List.range n).filter (nenabled st)
    if en.isEmpty then [[]]
    else en.flatMap fun t => (nenumScheds cfg n fuel (nturn cfg st t)).map (t :: ·)

def ncountScheds (cfg : NCfg) (n : Nat) : Nat → NState → Nat
  | 0, _ => 1
  | fuel + 1, st =>
    let en := (List.range n).filter (nenabled st)
    if en.isEmpty then 1
    else (en.map fun t => ncountScheds cfg n fuel (nturn cfg st t)).sum

def tabJson (nkeys : Nat) (m : Key → Option Obj) : Json :=
  Json.arr ((List.range nkeys).filterMap fun k => (m k).map fun c => Json.arr #[(k : Json), (c : Json)]).toArray

def handleNest (j : Json) : Except String Json := do
  let cfg ← ncfgOfJson j
  let progs ← nprogsOfJson j
  let sched ← natList (← j.getObjVal? "sched")
  let nkeys ← jsonNat? (← j.getObjVal? "keys")
  let fin ← boolField j "finish"
  let n := progs.length
  if sched.any (· ≥ n) then .error "schedule names a thread that does not exist"
  let st0 := ninit (fun t => (progs[t]?).getD [])
  let st1 := nrunTurns cfg st0 sched
  let totalOps := (progs.map List.length).sum
  let st := if fin then nfinish cfg n (15 * totalOps + 15) st1 else st1
  let done := (List.range n).all fun t => (st.threads t).pc == .idle && (st.threads t).ops.isEmpty
  let stuck := (List.range n).filter fun t =>
    !((st.threads t).pc == .idle && (st.threads t).ops.isEmpty) && !nenabled st t
  let optT : Option Tid → Json := fun o => match o with | some t => (t : Json) | none => Json.null
  pure (Json.mkObj [
    ("histO", Json.arr (st.histO.reverse.map evToJson).toArray),
    ("histI", Json.arr (st.histI.reverse.map evToJson).toArray),
    ("results", Json.arr ((List.range n).map fun t =>
        Json.arr ((st.threads t).results.reverse.map resToJson).toArray).toArray),
    ("cacheO", tabJson nkeys st.cacheO), ("cacheI", tabJson nkeys st.cacheI),
    ("callsO", (st.callsO : Json)), ("callsI", (st.callsI : Json)),
    ("lockO", optT st.lockO), ("lockI", optT st.lockI),
    ("done", Json.bool done),
    ("stuck", Json.arr (stuck.map fun (t : Nat) => (t : Json)).toArray)])

def handleNestEnum (j : Json) : Except String Json := do
  let cfg ← ncfgOfJson j
  let progs ← nprogsOfJson j
  let limit ← jsonNat? (← j.getObjVal? "limit")
  let n := progs.length
  let st0 := ninit (fun t => (progs[t]?).getD [])
  let fuel := 15 * (progs.map List.length).sum + 15
  let cnt := ncountScheds cfg n fuel st0
  if cnt > limit then
    pure (Json.mkObj [("count", (cnt : Json)), ("scheds", Json.null)])
  else
    let ss := nenumScheds cfg n fuel st0
    pure (Json.mkObj [("count", (cnt : Json)),
      ("scheds", Json.arr (ss.map fun s => Json.arr (s.map fun (t : Nat) => (t : Json)).toArray).toArray)])

end NestOps

/-- one turn of thread `t` in the fine-grained `add_sys_path` system, recording a RETURN (the pc goes from inside a
    call to idle — `fIdle` is a parking place, so a return is always the last micro-step of a turn) together with
    whether the path is on `sys.path` at that moment and whether the call went through the not-exists branch
    (theorems `add_sys_path_returned_on_syspath`, `…_anyfs`) -/
def fTurnR (ex : Nat → Bool) (a : FState × Array Json) (t : Nat) : FState × Array Json :=
  let pc0 := (a.1.threads t).pc
  let st' := fTurn ex a.1 t
  let rets := if pc0 != .fIdle && (st'.threads t).pc == .fIdle then
      match pc0.path with
      | some p => a.2.push (Json.arr #[(t : Json), (p : Json), Json.bool (st'.sysPath.contains p),
                                        Json.bool (match pc0 with | .fAddK _ | .fAddM _ => true | _ => false)])
      | none => a.2
    else a.2
  (st', rets)

def fFinishR (ex : Nat → Bool) (n : Nat) : Nat → FState × Array Json → FState × Array Json
  | 0, a => a
  | fuel + 1, a =>
    match (List.range n).find? (fEnabled a.1) with
    | none => a
    | some t => fFinishR ex n fuel (fTurnR ex a t)

def optNatList (j : Json) (k : String) : Except String (List Nat) :=
  match j.getObjVal? k with
  | .ok v => natList v
  | .error _ => pure []

def handleSysPathF (j : Json) : Except String Json := do
  let progs ← (← (← j.getObjVal? "threads").getArr?).toList.mapM natList
  let sched ← natList (← j.getObjVal? "sched")
  let exs ← natList (← j.getObjVal? "exists")
  let base ← natList (← j.getObjVal? "base")
  -- the history of the process: `_known_dirs` / `_missing_dirs` as earlier calls left them
  let known0 ← optNatList j "known0"
  let missing0 ← optNatList j "missing0"
  let fin ← boolField j "finish"
  let n := progs.length
  -- a schedule entry 1000 + d: directory d is created at that moment (the file system changes under the threads)
  if sched.any (fun e => e ≥ n && e < 1000) then .error "schedule names a thread that does not exist"
  let st0 := fInitH base known0 missing0 (fun t => (progs[t]?).getD [])
  let b1 := sched.foldl (fun (b : (FState × Array Json) × List Nat) e =>
      if e ≥ 1000 then (b.1, (e - 1000) :: b.2) else (fTurnR (fun p => b.2.contains p) b.1 e, b.2)) ((st0, #[]), exs)
  let a1 := b1.1
  let ex := fun p => b1.2.contains p
  let totalOps := (progs.map List.length).sum
  let a := if fin then fFinishR ex n (12 * totalOps + 12) a1 else a1
  let st := a.1
  let done := (List.range n).all fun t => (st.threads t).pc == .fIdle && (st.threads t).ops.isEmpty
  let sortd := fun (l : List Nat) => (l.eraseDups.toArray.qsort (· < ·)).toList
  pure (Json.mkObj [
    ("sysPath", Json.arr (st.sysPath.map fun (p : Nat) => (p : Json)).toArray),
    ("known", Json.arr ((sortd st.known).map fun (p : Nat) => (p : Json)).toArray),
    ("missing", Json.arr ((sortd st.missing).map fun (p : Nat) => (p : Json)).toArray),
    ("rets", Json.arr a.2),
    ("done", Json.bool done)])

def handle (op : String) (j : Json) : Except String Json := do
  match op with
  | "session" => handleSession j
  | "scan" => handleScan j
  | "nest" => handleNest j
  | "nestenum" => handleNestEnum j
  | "syspathf" => handleSysPathF j
  | "enum" =>
    let cfg ← cfgOfJson j
    let progs ← progsOfJson j
    let limit ← jsonNat? (← j.getObjVal? "limit")
    let n := progs.length
    let st0 := init cfg (fun t => (progs[t]?).getD [])
    let fuel := 8 * (progs.map List.length).sum + 8
    let cnt := countScheds cfg n fuel st0
    if cnt > limit then
      pure (Json.mkObj [("count", (cnt : Json)), ("scheds", Json.null)])
    else
      let ss := enumScheds cfg n fuel st0
      pure (Json.mkObj [("count", (cnt : Json)),
        ("scheds", Json.arr (ss.map fun s => Json.arr (s.map fun (t : Nat) => (t : Json)).toArray).toArray)])
  | "run" =>
    let cfg ← cfgOfJson j
    let progs ← progsOfJson j
    let sched ← natList (← j.getObjVal? "sched")
    let nkeys ← jsonNat? (← j.getObjVal? "keys")
    let mode ← (← j.getObjVal? "mode").getStr?
    let fin ← boolField j "finish"
    let n := progs.length
    if sched.any (· ≥ n) then .error "schedule names a thread that does not exist"
    let st0 := init cfg (fun t => (progs[t]?).getD [])
    let st1 ← match mode with
      | "turn" => pure (runTurns cfg st0 sched)
      | "micro" => pure (run cfg st0 sched)
      | _ => .error "mode must be turn or micro"
    let totalOps := (progs.map List.length).sum
    let st := if fin then finish cfg n (8 * totalOps + 8) st1 else st1
    let done := (List.range n).all fun t => (st.threads t).pc == .idle && (st.threads t).ops.isEmpty
    let cacheJ := (List.range nkeys).filterMap fun k =>
      (st.cache k).map fun c => Json.arr #[(k : Json), (c : Json)]
    pure (Json.mkObj [
      ("hist", Json.arr (st.hist.reverse.map evToJson).toArray),
      ("results", Json.arr ((List.range n).map fun t =>
          Json.arr ((st.threads t).results.reverse.map resToJson).toArray).toArray),
      ("cache", Json.arr cacheJ.toArray),
      ("calls", (st.calls : Json)),
      ("lock", match st.lock with | some t => (t : Json) | none => Json.null),
      ("done", Json.bool done)])
  | "judge" =>
    let cfg ← cfgOfJson j
    let evs ← (← (← j.getObjVal? "hist").getArr?).toList.mapM evOfJson
    let h := evs.reverse
    let spec := (specRun cfg h).isSome
    let distinct := decide (callIds h).Nodup
    pure (Json.mkObj [("spec", Json.bool spec), ("distinct", Json.bool distinct),
                      ("ok", Json.bool (holds cfg h))])
  | "key" =>
    let truthy ← boolField j "truthy"
    let parent ← (← j.getObjVal? "parent").getStr?
    let name ← (← j.getObjVal? "name").getStr?
    let key := match pipelineKey truthy parent name with
      | .pair p n => Json.arr #[Json.str "pair", Json.str p, Json.str n]
      | .bare n => Json.arr #[Json.str "bare", Json.str n]
    pure (Json.mkObj [("key", key), ("old", Json.str (pipelineKeyOld truthy parent name))])
  | "syspath" =>
    let progs ← (← (← j.getObjVal? "threads").getArr?).toList.mapM natList
    let sched ← natList (← j.getObjVal? "sched")
    let exs ← natList (← j.getObjVal? "exists")
    let base ← natList (← j.getObjVal? "base")
    let fin ← boolField j "finish"
    let n := progs.length
    if sched.any (· ≥ n) then .error "schedule names a thread that does not exist"
    let ex := fun p => exs.contains p
    let known0 ← optNatList j "known0"
    let missing0 ← optNatList j "missing0"
    let st0 := spInitH base known0 missing0 (fun t => (progs[t]?).getD [])
    let st1 := spRunTurns ex st0 sched
    let totalOps := (progs.map List.length).sum
    let st := if fin then spFinish ex n (8 * totalOps + 8) st1 else st1
    let done := (List.range n).all fun t => (st.threads t).pc == .spIdle && (st.threads t).ops.isEmpty
    let known := (st.known.eraseDups.toArray.qsort (· < ·)).toList
    pure (Json.mkObj [
      ("sysPath", Json.arr (st.sysPath.map fun (p : Nat) => (p : Json)).toArray),
      ("known", Json.arr (known.map fun (p : Nat) => (p : Json)).toArray),
      ("missing", Json.arr ((st.missing.eraseDups.toArray.qsort (· < ·)).toList.map fun (p : Nat) => (p : Json)).toArray),
      ("done", Json.bool done)])
  | _ => .error s!"unknown op {op}"

end Pypyr.OpCache
