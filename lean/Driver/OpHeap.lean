/- Driver ops for the heap-level formatting model (`PypyrModel/FmtHeap.lean`), area "heap".
   Ops prefixed `fmt…`: formatting heap (C09).  Ops prefixed `run…`: the run heap of
   `PypyrModel/Heap.lean` (C12), namespace `Pypyr.OpRunHeap` below. -/
import Lean.Data.Json
import PypyrModel.Json
import PypyrModel.Fmt
import PypyrModel.FmtHeap
import PypyrModel.FmtRoute
import PypyrModel.Heap

/-! ## run heap (C12) -/
namespace Pypyr.OpRunHeap
open Lean (Json JsonNumber)
open Pypyr.RunHeap

def natJ (n : Nat) : Json := Json.num (JsonNumber.fromNat n)

/-- Atoms only: None, bool, int, float, str, bytes. -/
def isAtom : Val → Bool
  | .none | .bool _ | .int _ | .flt _ _ | .str _ | .bytes _ => true
  | _ => false

def bcellOfJson (j : Json) : Except String BCell := do
  if let .ok v := j.getObjVal? "leaf" then
    let w ← Val.ofJson v
    if isAtom w then return .leaf w else throw "leaf cell holds a non-atom"
  let pairs := fun (x : Json) => do
    (← x.getArr?).toList.mapM fun p => do
      match p with
      | .arr #[k, v] => pure ((← k.getStr?), (← jsonNat? v))
      | _ => throw "bad dict cell pair"
  if let .ok x := j.getObjVal? "list" then
    return .list (← (← x.getArr?).toList.mapM jsonNat?)
  if let .ok x := j.getObjVal? "tuple" then
    return .tuple (← (← x.getArr?).toList.mapM jsonNat?)
  if let .ok x := j.getObjVal? "set" then
    return .set (← (← x.getArr?).toList.mapM jsonNat?)
  if let .ok x := j.getObjVal? "dict" then
    return .dict (← pairs x)
  if let .ok x := j.getObjVal? "obj" then
    match x with
    | .arr #[c, ps] => return .obj (← c.getStr?) (← pairs ps)
    | _ => throw "bad obj cell"
  throw s!"bad block cell {j.compress}"

/-- Well-formed block: non-empty, every position it mentions exists. -/
def blockOk (b : Block) : Bool :=
  !b.isEmpty && b.all fun c => match c with
    | .leaf _ => true
    | .list js | .tuple js | .set js => js.all (· < b.length)
    | .dict kjs | .obj _ kjs => kjs.all (·.2 < b.length)

def blockOfJson (j : Json) : Except String Block := do
  let b ← (← j.getArr?).toList.mapM bcellOfJson
  if blockOk b then pure b else throw "block is empty or has a dangling position"

def regionOfJson (j : Json) : Except String Region := do
  let g ← (← j.getObjVal? "g").getStr?
  match g with
  | "config" => pure .config
  | "defn" => pure (.defn (← jsonNat? (← j.getObjVal? "n")))
  | "run" => pure (.run (← jsonNat? (← j.getObjVal? "n")))
  | _ => throw s!"bad region {g}"

def refOfJson (j : Json) : Except String Ref := do
  pure ⟨← regionOfJson j, ← jsonNat? (← j.getObjVal? "i")⟩

def refToJson (x : Ref) : Json :=
  match x.reg with
  | .config => Json.mkObj [("g", Json.str "config"), ("i", natJ x.idx)]
  | .defn p => Json.mkObj [("g", Json.str "defn"), ("n", natJ p), ("i", natJ x.idx)]
  | .run r => Json.mkObj [("g", Json.str "run"), ("n", natJ r), ("i", natJ x.idx)]

def segOfJson (j : Json) : Except String Seg :=
  match j with
  | .str k => pure (.key k)
  | .obj _ => do pure (.attr (← (← j.getObjVal? "attr").getStr?))
  | _ => do pure (.idx (← jsonNat? j))

def pathOfJson (j : Json) : Except String Path := do
  (← j.getArr?).toList.mapM segOfJson

def opOfJson (j : Json) : Except String Op := do
  let o ← (← j.getObjVal? "o").getStr?
  let key := fun (f : String) => do (← j.getObjVal? f).getStr?
  let blk := fun (f : String) => do blockOfJson (← j.getObjVal? f)
  match o with
  | "start" => pure (.start (← blk "b"))
  | "inCopy" => pure (.inCopy (← key "key") (← refOfJson (← j.getObjVal? "src")))
  | "inAlias" => pure (.inAlias (← key "key") (← refOfJson (← j.getObjVal? "src")))
  | "configvarsCopy" => pure .configvarsCopy
  | "configvarsAlias" => pure .configvarsAlias
  | "unsetIn" => pure (.unsetIn (← key "key"))
  | "setKey" => pure (.setKey (← key "key") (← blk "b"))
  | "appendAt" => pure (.appendAt (← pathOfJson (← j.getObjVal? "path")) (← blk "b"))
  | "extendAt" => pure (.extendAt (← pathOfJson (← j.getObjVal? "path"))
      (← (← (← j.getObjVal? "bs").getArr?).toList.mapM blockOfJson))
  | "addAt" => pure (.addAt (← pathOfJson (← j.getObjVal? "path")) (← blk "b"))
  | "dictSetAt" => pure (.dictSetAt (← pathOfJson (← j.getObjVal? "path")) (← key "k") (← blk "b"))
  | "attrSetAt" => pure (.attrSetAt (← pathOfJson (← j.getObjVal? "path")) (← key "k") (← blk "b"))
  | "fmtFrom" => pure (.fmtFrom (← jsonNat? (← j.getObjVal? "src")) (← pathOfJson (← j.getObjVal? "sp"))
      (← pathOfJson (← j.getObjVal? "path")) (← key "k") (← (← j.getObjVal? "byRef").getBool?))
  | "fail" => pure .fail
  | "copyKey" => pure (.copyKey (← key "src") (← key "dst"))
  | "shortcutArgsCopy" => pure (.shortcutArgsCopy (← refOfJson (← j.getObjVal? "src")))
  | "fmtSetAt" =>
    let keep ← match j.getObjVal? "keep" with
      | .ok k => (← k.getArr?).toList.mapM jsonNat?
      | .error _ => pure []
    pure (.fmtSetAt (← pathOfJson (← j.getObjVal? "path")) (← key "k") (← refOfJson (← j.getObjVal? "src")) keep)
  | _ => throw s!"unknown heap op {o}"

def bcellToJson : BCell → Json
  | .leaf v => Json.mkObj [("leaf", v.toJson)]
  | .list js => Json.mkObj [("list", Json.arr (js.map natJ).toArray)]
  | .tuple js => Json.mkObj [("tuple", Json.arr (js.map natJ).toArray)]
  | .set js => Json.mkObj [("set", Json.arr (js.map natJ).toArray)]
  | .dict kjs => Json.mkObj [("dict", Json.arr (kjs.map fun kj => Json.arr #[Json.str kj.1, natJ kj.2]).toArray)]
  | .obj c kjs => Json.mkObj [("obj", Json.arr #[Json.str c,
      Json.arr (kjs.map fun kj => Json.arr #[Json.str kj.1, natJ kj.2]).toArray])]

def blockToJson (b : Block) : Json := Json.arr (b.map bcellToJson).toArray

def segToJson : Seg → Json
  | .key k => Json.str k
  | .idx i => natJ i
  | .attr k => Json.mkObj [("attr", Json.str k)]

def pathToJson (p : Path) : Json := Json.arr (p.map segToJson).toArray

/-- inverse of `opOfJson` -/
def opToJson : Op → Json
  | .start b => Json.mkObj [("o", "start"), ("b", blockToJson b)]
  | .inCopy k src => Json.mkObj [("o", "inCopy"), ("key", Json.str k), ("src", refToJson src)]
  | .inAlias k src => Json.mkObj [("o", "inAlias"), ("key", Json.str k), ("src", refToJson src)]
  | .configvarsCopy => Json.mkObj [("o", "configvarsCopy")]
  | .configvarsAlias => Json.mkObj [("o", "configvarsAlias")]
  | .unsetIn k => Json.mkObj [("o", "unsetIn"), ("key", Json.str k)]
  | .setKey k b => Json.mkObj [("o", "setKey"), ("key", Json.str k), ("b", blockToJson b)]
  | .appendAt p b => Json.mkObj [("o", "appendAt"), ("path", pathToJson p), ("b", blockToJson b)]
  | .extendAt p bs => Json.mkObj [("o", "extendAt"), ("path", pathToJson p), ("bs", Json.arr (bs.map blockToJson).toArray)]
  | .addAt p b => Json.mkObj [("o", "addAt"), ("path", pathToJson p), ("b", blockToJson b)]
  | .dictSetAt p k b => Json.mkObj [("o", "dictSetAt"), ("path", pathToJson p), ("k", Json.str k), ("b", blockToJson b)]
  | .attrSetAt p k b => Json.mkObj [("o", "attrSetAt"), ("path", pathToJson p), ("k", Json.str k), ("b", blockToJson b)]
  | .copyKey src dst => Json.mkObj [("o", "copyKey"), ("src", Json.str src), ("dst", Json.str dst)]
  | .shortcutArgsCopy src => Json.mkObj [("o", "shortcutArgsCopy"), ("src", refToJson src)]
  | .fmtSetAt p k src keep =>
    let base : List (String × Json) := [("o", Json.str "fmtSetAt"), ("path", pathToJson p), ("k", Json.str k), ("src", refToJson src)]
    Json.mkObj (if keep.isEmpty then base else base ++ [("keep", Json.arr (keep.map natJ).toArray)])
  | .fmtFrom src sp p k byRef => Json.mkObj [("o", "fmtFrom"), ("src", natJ src), ("sp", pathToJson sp),
      ("path", pathToJson p), ("k", Json.str k), ("byRef", Json.bool byRef)]
  | .fail => Json.mkObj [("o", "fail")]

def pairsOfJson (j : Json) : Except String (List (String × Val)) := do
  (← j.getArr?).toList.mapM fun p => do
    match p with
    | .arr #[k, v] => pure ((← k.getStr?), (← Val.ofJson v))
    | _ => throw "bad pair"

def pyFormOfJson (j : Json) : Except String PyForm := do
  let f ← (← j.getObjVal? "f").getStr?
  let path := do pathOfJson (← j.getObjVal? "path")
  let val := fun (k : String) => do Val.ofJson (← j.getObjVal? k)
  match f with
  | "append" => pure (.append (← path) (← val "w"))
  | "extend" => pure (.extend (← path) (← (← (← j.getObjVal? "ws").getArr?).toList.mapM Val.ofJson))
  | "setItem" => pure (.setItem (← path) (← (← j.getObjVal? "k").getStr?) (← val "w"))
  | "add" => pure (.add (← path) (← val "a"))
  | "alias" => pure (.alias (← (← j.getObjVal? "src").getStr?) (← (← j.getObjVal? "dst").getStr?))
  | "raise" => pure .raise
  | _ => throw s!"unknown py form {f}"

/-- `{i: kind, …}`: one step-level unit (`RunHeap.Instr`); values in the wire form of `Val`. -/
def instrOfJson (j : Json) : Except String Instr := do
  let i ← (← j.getObjVal? "i").getStr?
  let str := fun (k : String) => do (← j.getObjVal? k).getStr?
  let val := fun (k : String) => do Val.ofJson (← j.getObjVal? k)
  match i with
  | "ctxStart" => pure (.ctxStart (← val "v"))
  | "shortcutArgs" => pure (.shortcutArgs (← refOfJson (← j.getObjVal? "src")) (← pairsOfJson (← j.getObjVal? "dictIn")))
  | "parserList" => pure (.parserList (← (← (← j.getObjVal? "args").getArr?).toList.mapM (·.getStr?)))
  | "enter" =>
    let ins ← (← (← j.getObjVal? "ins").getArr?).toList.mapM fun p => do
      match p with
      | .arr #[k, r] => pure ((← k.getStr?), (← refOfJson r))
      | _ => throw "bad in pair"
    pure (.enter ins)
  | "leave" => pure (.leave (← (← (← j.getObjVal? "keys").getArr?).toList.mapM (·.getStr?)))
  | "foreachItem" => pure (.foreachItem (← refOfJson (← j.getObjVal? "src")))
  | "counter" => pure (.counter (← str "name") (← jsonNat? (← j.getObjVal? "n")))
  | "append" => pure (.append (← str "K") (← val "W") (← (← j.getObjVal? "unpack").getBool?))
  | "add" => pure (.add (← str "K") (← val "a"))
  | "set" => pure (.set (← pairsOfJson (← j.getObjVal? "pairs")))
  | "setf" => pure (.setf (← pairsOfJson (← j.getObjVal? "pairs")))
  | "setff" => pure (.setff (← str "dst") (← str "src"))
  | "contextcopy" => pure (.contextcopy (← str "dst") (← str "src"))
  | "default" => pure (.default (← val "v"))
  | "merge" => pure (.merge (← val "v"))
  | "py" => pure (.py (← (← (← j.getObjVal? "forms").getArr?).toList.mapM pyFormOfJson))
  | "configvars" => pure .configvars
  | "saveError" =>
    let onErr ← match j.getObjVal? "onError" with
      | .ok .null => pure Option.none
      | .ok r => pure (some (← refOfJson r))
      | .error _ => pure Option.none
    pure (.saveError (← val "failure") onErr)
  | "raise" => pure .raise
  | _ => throw s!"unknown instruction {i}"

def arenaEq (a b : Arena) : Bool := decide (a = b)

/-- every shared arena of `h` equals that of `h0` (definitions `0 … n-1` and config) -/
def sharedSame (n : Nat) (h0 h : Heap) : Bool :=
  (List.range n).all (fun p => arenaEq (h.arena (.defn p)) (h0.arena (.defn p))) &&
    arenaEq (h.arena .config) (h0.arena .config)

def opsOfJson (j : Json) : Except String (List Op) := do
  (← j.getArr?).toList.mapM opOfJson

/-- `{obj, run, pre: [op…], steps: [[null | nested run, op]…]}`: one call `obj.run(context of run)` -/
def callOfJsonWith {α : Type} (dec : Json → Except String α) (j : Json) : Except String (CallOf α) := do
  let steps ← (← (← j.getObjVal? "steps").getArr?).toList.mapM fun e => do
    match e with
    | .arr #[.null, o] => pure (Option.none, (← dec o))
    | .arr #[r, o] => pure (some (← jsonNat? r), (← dec o))
    | _ => throw "bad call step"
  pure ⟨← jsonNat? (← j.getObjVal? "obj"), ← jsonNat? (← j.getObjVal? "run"),
        ← (← (← j.getObjVal? "pre").getArr?).toList.mapM dec, steps⟩

def callOfJson (j : Json) : Except String Call := callOfJsonWith opOfJson j

/-- The schedule of a request: `sched: [[r, op]…]` as it is, or `calls: [call…]` – a history of calls
    on `Pipeline` objects that start out fresh – turned into operations by `callsSched` under the
    `StepsRunner` rule of the code as it is (`perCall`; `rule: "keepFirst"` for what-if questions). -/
def schedOfJsonWith {α : Type} (dec : Json → Except String α) (j : Json) : Except String (List (Nat × α)) := do
  match j.getObjVal? "calls" with
  | .ok cs =>
    let calls ← (← cs.getArr?).toList.mapM (callOfJsonWith dec)
    let rule ← match j.getObjVal? "rule" with
      | .ok (.str "keepFirst") => pure RunnerRule.keepFirst
      | .ok (.str "perCall") => pure RunnerRule.perCall
      | .ok r => throw s!"bad runner rule {r.compress}"
      | .error _ => pure RunnerRule.perCall
    pure (callsSched rule Objs.fresh calls)
  | .error _ =>
    (← (← j.getObjVal? "sched").getArr?).toList.mapM fun e => do
      match e with
      | .arr #[r, o] => pure ((← jsonNat? r), (← dec o))
      | _ => throw "bad schedule entry"

def schedOfJson (j : Json) : Except String Sched := schedOfJsonWith opOfJson j

/-- The same heap with the arenas of `regs` computed once and stored (a `Heap` is a function; after
    k operations it is a chain of k closures, and every read would run through all of them again).
    Regions outside `regs` still go through the original function: the result is extensionally `h`. -/
def materialize (regs : List Region) (h : Heap) : Heap :=
  let table := regs.map fun g => (g, h.arena g)
  ⟨fun g => match table.find? (fun e => e.1 == g) with
    | some e => e.2
    | none => h.arena g⟩

/-- the same for the flags of the runs that are over -/
def materializeSt (regs : List Region) (runs : List Nat) (st : State) : State :=
  let table := runs.map fun r => (r, st.dead r)
  ⟨materialize regs st.heap, fun r => match table.find? (fun e => e.1 == r) with
    | some e => e.2
    | none => st.dead r⟩

def plainBlock (b : Block) : Bool := b.all fun c => !c.isObj

/-- `runExec` {defs: [block…], cfg: block, sched: [[r, op]…] | calls: [{obj, run, pre, steps}…], fuel?, watch?: [ref…]} →
    {steps: [{r, applied, dead, ctx, foreign} after every operation, for the run that moved; `applied`: the
       operation had an effect; `dead`: the run is over because this or an earlier operation of it raised],
     sharedSame: every definition/config arena is still what the loader produced,
     sharedSameAt: index of the first operation after which that stopped being true (or null),
     watch: deep value of each watched address at the end, final (on request `final: true`): [{r, dead, ctx,
     foreign}] for every run AT THE END, fixed: all operations are `Op.fixed`,
     plain: definitions and configuration hold no opaque objects (the domain of the theorems)} -/
def runExec (j : Json) : Except String Json := do
  let defs ← (← (← j.getObjVal? "defs").getArr?).toList.mapM blockOfJson
  let cfg ← blockOfJson (← j.getObjVal? "cfg")
  let fuel := match j.getObjVal? "fuel" with
    | .ok f => (jsonNat? f).toOption.getD 64
    | .error _ => 64
  let sched ← schedOfJson j
  let watch ← match j.getObjVal? "watch" with
    | .ok w => (← w.getArr?).toList.mapM refOfJson
    | .error _ => pure []
  let n := defs.length
  let runs := (sched.map fun e => e.1).eraseDups
  let regs : List Region := (List.range n).map Region.defn ++ [Region.config] ++ runs.map Region.run
  let st0 := materializeSt regs runs (State.loaded defs cfg)
  let rec go (st : State) (s : List (Nat × Op)) (i : Nat) (acc : List Json) (firstBad : Option Nat) :
      List Json × State × Option Nat :=
    match s with
    | [] => (acc.reverse, st, firstBad)
    | (r, op) :: rest =>
      let applied := !st.dead r && (effect st.heap r op).isSome
      let st1 := materializeSt regs runs (step st r op)
      let obs := Json.mkObj [("r", natJ r), ("applied", Json.bool applied), ("dead", Json.bool (st1.dead r)),
        ("ctx", (deepVal fuel st1.heap (root r)).toJson),
        ("foreign", Json.arr ((foreignReach (4 * fuel + 4096) st1.heap r).map refToJson).toArray)]
      let fb := match firstBad with
        | some k => some k
        | none => if sharedSame n st0.heap st1.heap then none else some i
      go st1 rest (i + 1) (obs :: acc) fb
  let (steps, stEnd, firstBad) := go st0 sched 0 [] none
  pure (Json.mkObj [
    ("steps", Json.arr steps.toArray),
    ("sharedSame", Json.bool (sharedSame n st0.heap stEnd.heap)),
    ("sharedSameAt", match firstBad with | some k => natJ k | none => Json.null),
    ("watch", Json.arr (watch.map fun x => (deepVal fuel stEnd.heap x).toJson).toArray),
    ("final", match j.getObjVal? "final" with
      | .ok (.bool true) => Json.arr (runs.map fun r => Json.mkObj [("r", natJ r), ("dead", Json.bool (stEnd.dead r)),
          ("ctx", (deepVal fuel stEnd.heap (root r)).toJson),
          ("foreign", Json.arr ((foreignReach (4 * fuel + 4096) stEnd.heap r).map refToJson).toArray)]).toArray
      | _ => Json.null),
    ("fixed", Json.bool (sched.all fun e => e.2.fixed)),
    ("plain", Json.bool (defs.all plainBlock && plainBlock cfg))])

/-- `runSteps`: `runExec` at STEP granularity.  The schedule (`sched` / `calls`) holds step-level units
    (`instrOfJson`) instead of operations; every unit is READ against the state in which it starts
    (`RunHeap.opsOf`) and its operations are then performed.  Result: as `runExec` (one entry of `steps` per
    operation), plus `ops`: [[r, op]…] the operations that were read, `nops`: how many each unit has.
    A unit outside the modelled reading is rejected. -/
def runSteps (j : Json) : Except String Json := do
  let defs ← (← (← j.getObjVal? "defs").getArr?).toList.mapM blockOfJson
  let cfg ← blockOfJson (← j.getObjVal? "cfg")
  let fuel := match j.getObjVal? "fuel" with
    | .ok f => (jsonNat? f).toOption.getD 64
    | .error _ => 64
  let ksched : KSched ← schedOfJsonWith instrOfJson j
  let n := defs.length
  let runs := (ksched.map fun e => e.1).eraseDups
  let regs : List Region := (List.range n).map Region.defn ++ [Region.config] ++ runs.map Region.run
  let st0 := materializeSt regs runs (State.loaded defs cfg)
  let rec goOps (st : State) (r : Nat) (ops : List Op) (acc : List Json) : List Json × State :=
    match ops with
    | [] => (acc, st)
    | op :: rest =>
      let applied := !st.dead r && (effect st.heap r op).isSome
      let st1 := materializeSt regs runs (step st r op)
      let obs := Json.mkObj [("r", natJ r), ("applied", Json.bool applied), ("dead", Json.bool (st1.dead r)),
        ("ctx", (deepVal fuel st1.heap (root r)).toJson),
        ("foreign", Json.arr ((foreignReach (4 * fuel + 4096) st1.heap r).map refToJson).toArray)]
      goOps st1 r rest (obs :: acc)
  let rec go (st : State) (s : KSched) (acc : List Json) (opsAcc : List Json) (nops : List Nat) :
      Except String (List Json × List Json × List Nat × State) :=
    match s with
    | [] => pure (acc.reverse, opsAcc.reverse, nops.reverse, st)
    | (r, i) :: rest =>
      match opsOf st.heap r i with
      | none => throw s!"out of domain: no reading for step {repr i}"
      | some ops =>
        let (acc1, st1) := goOps st r ops acc
        go st1 rest acc1 ((ops.map fun o => Json.arr #[natJ r, opToJson o]).reverse ++ opsAcc) (ops.length :: nops)
  let (steps, ops, nops, stEnd) ← go st0 ksched [] [] []
  pure (Json.mkObj [
    ("steps", Json.arr steps.toArray),
    ("ops", Json.arr ops.toArray),
    ("nops", Json.arr (nops.map natJ).toArray),
    ("sharedSame", Json.bool (sharedSame n st0.heap stEnd.heap)),
    ("fixed", Json.bool true),
    ("plain", Json.bool (defs.all plainBlock && plainBlock cfg))])

def handle (op : String) (j : Json) : Except String Json :=
  match op with
  | "runExec" => runExec j
  | "runSteps" => runSteps j
  | _ => .error s!"unknown op {op}"

end Pypyr.OpRunHeap

namespace Pypyr.OpHeap
open Lean (Json JsonNumber)
open Pypyr.FmtHeap

def fuelOf (j : Json) : Nat :=
  match j.getObjVal? "fuel" with
  | .ok f => (jsonNat? f).toOption.getD 64
  | .error _ => 64

def refsOfJson (j : Json) : Except String (List Ref) := do
  (← j.getArr?).toList.mapM jsonNat?

/-- `[tag, [refs…]]` -/
def taggedRefs (j : Json) : Except String (Nat × List Ref) := do
  match j with
  | .arr #[t, rs] => pure (← jsonNat? t, ← refsOfJson rs)
  | _ => throw "bad tagged refs"

def cellOfJson (j : Json) : Except String Cell := do
  if let .ok v := j.getObjVal? "leaf" then
    let w ← Val.ofJson v
    if isLeafVal w then return .leaf w else throw "leaf cell holds a non-leaf value"
  if let .ok s := j.getObjVal? "mbytes" then return .mbytes (← s.getStr?)   -- hex text, as {"b": hex}
  if let .ok s := j.getObjVal? "str" then return .str (← s.getStr?)
  if let .ok x := j.getObjVal? "list" then let (t, rs) ← taggedRefs x; return .list t rs
  if let .ok x := j.getObjVal? "tuple" then let (t, rs) ← taggedRefs x; return .tuple t rs
  if let .ok x := j.getObjVal? "set" then let (t, rs) ← taggedRefs x; return .set t rs
  if let .ok x := j.getObjVal? "dict" then
    match x with
    | .arr #[t, prs] =>
      let ps ← (← prs.getArr?).toList.mapM fun p => do
        match p with
        | .arr #[k, v] => pure ((← jsonNat? k), (← jsonNat? v))
        | _ => throw "bad dict cell pair"
      return .dict (← jsonNat? t) ps
    | _ => throw "bad dict cell"
  if let .ok r := j.getObjVal? "sic" then return .sic (← jsonNat? r)
  if let .ok n := j.getObjVal? "py" then return .pyName (← n.getStr?)
  if let .ok r := j.getObjVal? "jsonify" then return .jsonify (← jsonNat? r)
  throw s!"bad cell {j.compress}"

def natJ (n : Nat) : Json := Json.num (JsonNumber.fromNat n)
def refsJ (rs : List Ref) : Json := Json.arr (rs.map natJ).toArray

def cellToJson : Cell → Json
  | .leaf v => Json.mkObj [("leaf", v.toJson)]
  | .mbytes b => Json.mkObj [("mbytes", Json.str b)]
  | .str s => Json.mkObj [("str", Json.str s)]
  | .list t rs => Json.mkObj [("list", Json.arr #[natJ t, refsJ rs])]
  | .tuple t rs => Json.mkObj [("tuple", Json.arr #[natJ t, refsJ rs])]
  | .set t rs => Json.mkObj [("set", Json.arr #[natJ t, refsJ rs])]
  | .dict t kvs => Json.mkObj [("dict", Json.arr #[natJ t,
      Json.arr (kvs.map fun (k, v) => Json.arr #[natJ k, natJ v]).toArray])]
  | .sic r => Json.mkObj [("sic", natJ r)]
  | .pyName n => Json.mkObj [("py", Json.str n)]
  | .jsonify r => Json.mkObj [("jsonify", natJ r)]

/-- The heap must be a DAG in construction order (a cell refers to lower indices only), `sic`
    cells must point at str cells: what the harness can build as Python objects. -/
def cellOk (h : Heap) (i : Nat) (c : Cell) : Bool :=
  match c with
  | .list _ rs | .tuple _ rs | .set _ rs => rs.all (· < i)
  | .dict _ kvs => kvs.all fun kv => kv.1 < i && kv.2 < i
  | .sic r => r < i && (match h[r]? with | some (.str _) => true | _ => false)
  | .jsonify r => r < i
  | _ => true

def heapOk (h : Heap) : Bool := (List.range h.length).all fun i =>
  match h[i]? with
  | some c => cellOk h i c
  | none => false

def hctxOfJson (j : Json) : Except String HCtx := do
  (← j.getArr?).toList.mapM fun p => do
    match p with
    | .arr #[k, r] => pure ((← k.getStr?), (← jsonNat? r))
    | _ => throw "bad ctx pair"

def errJ (e : Exc) : Except String Json :=
  if e.name == "OutOfDomain" then .error ("out of domain: " ++ e.msg)
  else .ok (Json.mkObj [("err", e.toJson)])

/-- ops:
    `fmtHeap` {cells, ctx: [[key, ref]…], root, fuel?} → {ok: {root, cells (whole heap after), n0,
        val (tree value of the result), oldval (tree value of the input root afterwards)}} | {err};
    `fmtTree` {ctx, v, fuel?} → tree-level `fmtVal` + the C09 predicates of input and result. -/
def handle (op : String) (j : Json) : Except String Json := do
  match op with
  | "fmtHeap" =>
    let cells ← (← (← j.getObjVal? "cells").getArr?).toList.mapM cellOfJson
    if !heapOk cells then throw "heap is not a well-formed DAG"
    let ctx ← hctxOfJson (← j.getObjVal? "ctx")
    let root ← jsonNat? (← j.getObjVal? "root")
    if root ≥ cells.length || ctx.any (fun kr => kr.2 ≥ cells.length) then throw "dangling root/ctx ref"
    match fmtHeap (fuelOf j) ctx cells root with
    | .error e => errJ e
    | .ok (r, h) =>
      let valJ := match deepVal h r with | some v => v.toJson | none => Json.null
      pure (Json.mkObj [("ok", Json.mkObj [
        ("root", natJ r), ("n0", natJ cells.length),
        ("cells", Json.arr (h.map cellToJson).toArray),
        ("val", valJ)])])
  | "fmtTree" =>
    let ctx ← Ctx.ofJson (← j.getObjVal? "ctx")
    let v ← Val.ofJson (← j.getObjVal? "v")
    if !(wfVal v && keysHashable v) then throw "input value breaks the dict/set representation invariant"
    if !(ctx.all fun kv => wfVal kv.2 && keysHashable kv.2) then throw "context value breaks the representation invariant"
    let inPreds := [("braceFree", Json.bool (braceFree v))]
    match fmtVal (fuelOf j) ctx v with
    | .error e =>
      match errJ e with
      | .error m => .error m
      | .ok ej => pure (ej.mergeObj (Json.mkObj inPreds))
    | .ok r =>
      if !keysHashable r then throw "out of domain: result has an unhashable key or set member"
      pure (Json.mkObj ([("ok", r.toJson), ("resBraceFree", Json.bool (braceFree r)),
                         ("resWf", Json.bool (wfVal r))] ++ inPreds))
  | "fmtRoute" =>
    -- {tags: {passthrough, special, str, bytes, mapping, sequence, set : bool}} → the branch of the routing table
    let tj ← j.getObjVal? "tags"
    let b := fun (k : String) => do (← tj.getObjVal? k).getBool?
    let t1 ← b "passthrough"
    let t2 ← b "special"
    let t3 ← b "str"
    let t4 ← b "bytes"
    let t5 ← b "mapping"
    let t6 ← b "sequence"
    let t7 ← b "set"
    let t : Pypyr.FmtRoute.Tags := ⟨t1, t2, t3, t4, t5, t6, t7⟩
    let name := match Pypyr.FmtRoute.route t with
      | .passthrough => "passthrough" | .special => "special" | .format => "format" | .bytesLeaf => "bytesLeaf"
      | .mapping => "mapping" | .iterable => "iterable" | .leaf => "leaf"
    pure (Json.mkObj [("branch", Json.str name)])
  | _ =>
    if op.startsWith "run" then Pypyr.OpRunHeap.handle op j else .error s!"unknown op {op}"

end Pypyr.OpHeap
