/- Driver ops for the heap-level formatting model (`PypyrModel/FmtHeap.lean`), area "heap".
   Ops prefixed `fmt…`: formatting heap (C09).  Ops prefixed `run…`: the run heap of
   `PypyrModel/Heap.lean` (C12), namespace `Pypyr.OpRunHeap` below. -/
import Lean.Data.Json
import PypyrModel.Json
import PypyrModel.Fmt
import PypyrModel.FmtHeap
import PypyrModel.Heap

/-! ## run heap (C12) -/
namespace Pypyr.OpRunHeap
open Lean (Json JsonNumber)
open Pypyr.RunHeap

def natJ (n : Nat) : Json := Json.num (JsonNumber.fromNat n)

/-- Atoms only: None, bool, int, float, str, bytes. -/
def isAtom : Val → Bool
  | .none | .bool _ | .int _ | .flt _ _ | .str _ | .bytes _ => true
  | _ => false

def bcellOfJson (j : Json) : Except String BCell := do
  if let .ok v := j.getObjVal? "leaf" then
    let w ← Val.ofJson v
    if isAtom w then return .leaf w else throw "leaf cell holds a non-atom"
  if let .ok x := j.getObjVal? "list" then
    return .list (← (← x.getArr?).toList.mapM jsonNat?)
  if let .ok x := j.getObjVal? "dict" then
    let ps ← (← x.getArr?).toList.mapM fun p => do
      match p with
      | .arr #[k, v] => pure ((← k.getStr?), (← jsonNat? v))
      | _ => throw "bad dict cell pair"
    return .dict ps
  throw s!"bad block cell {j.compress}"

/-- Well-formed block: non-empty, every position it mentions exists. -/
def blockOk (b : Block) : Bool :=
  !b.isEmpty && b.all fun c => match c with
    | .leaf _ => true
    | .list js => js.all (· < b.length)
    | .dict kjs => kjs.all (·.2 < b.length)

def blockOfJson (j : Json) : Except String Block := do
  let b ← (← j.getArr?).toList.mapM bcellOfJson
  if blockOk b then pure b else throw "block is empty or has a dangling position"

def regionOfJson (j : Json) : Except String Region := do
  let g ← (← j.getObjVal? "g").getStr?
  match g with
  | "config" => pure .config
  | "defn" => pure (.defn (← jsonNat? (← j.getObjVal? "n")))
  | "run" => pure (.run (← jsonNat? (← j.getObjVal? "n")))
  | _ => throw s!"bad region {g}"

def refOfJson (j : Json) : Except String Ref := do
  pure ⟨← regionOfJson j, ← jsonNat? (← j.getObjVal? "i")⟩

def refToJson (x : Ref) : Json :=
  match x.reg with
  | .config => Json.mkObj [("g", Json.str "config"), ("i", natJ x.idx)]
  | .defn p => Json.mkObj [("g", Json.str "defn"), ("n", natJ p), ("i", natJ x.idx)]
  | .run r => Json.mkObj [("g", Json.str "run"), ("n", natJ r), ("i", natJ x.idx)]

def segOfJson (j : Json) : Except String Seg :=
  match j with
  | .str k => pure (.key k)
  | _ => do pure (.idx (← jsonNat? j))

def pathOfJson (j : Json) : Except String Path := do
  (← j.getArr?).toList.mapM segOfJson

def opOfJson (j : Json) : Except String Op := do
  let o ← (← j.getObjVal? "o").getStr?
  let key := fun (f : String) => do (← j.getObjVal? f).getStr?
  let blk := fun (f : String) => do blockOfJson (← j.getObjVal? f)
  match o with
  | "start" => pure (.start (← blk "b"))
  | "inCopy" => pure (.inCopy (← key "key") (← refOfJson (← j.getObjVal? "src")))
  | "inAlias" => pure (.inAlias (← key "key") (← refOfJson (← j.getObjVal? "src")))
  | "configvarsCopy" => pure .configvarsCopy
  | "configvarsAlias" => pure .configvarsAlias
  | "unsetIn" => pure (.unsetIn (← key "key"))
  | "setKey" => pure (.setKey (← key "key") (← blk "b"))
  | "appendAt" => pure (.appendAt (← pathOfJson (← j.getObjVal? "path")) (← blk "b"))
  | "extendAt" => pure (.extendAt (← pathOfJson (← j.getObjVal? "path"))
      (← (← (← j.getObjVal? "bs").getArr?).toList.mapM blockOfJson))
  | "addAt" => pure (.addAt (← pathOfJson (← j.getObjVal? "path")) (← blk "b"))
  | "dictSetAt" => pure (.dictSetAt (← pathOfJson (← j.getObjVal? "path")) (← key "k") (← blk "b"))
  | "copyKey" => pure (.copyKey (← key "src") (← key "dst"))
  | "shortcutArgsCopy" => pure (.shortcutArgsCopy (← refOfJson (← j.getObjVal? "src")))
  | "fmtSetAt" =>
    let keep ← match j.getObjVal? "keep" with
      | .ok k => (← k.getArr?).toList.mapM jsonNat?
      | .error _ => pure []
    pure (.fmtSetAt (← pathOfJson (← j.getObjVal? "path")) (← key "k") (← refOfJson (← j.getObjVal? "src")) keep)
  | _ => throw s!"unknown heap op {o}"

def arenaEq (a b : Arena) : Bool := decide (a = b)

/-- every shared arena of `h` equals that of `h0` (definitions `0 … n-1` and config) -/
def sharedSame (n : Nat) (h0 h : Heap) : Bool :=
  (List.range n).all (fun p => arenaEq (h.arena (.defn p)) (h0.arena (.defn p))) &&
    arenaEq (h.arena .config) (h0.arena .config)

def opsOfJson (j : Json) : Except String (List Op) := do
  (← j.getArr?).toList.mapM opOfJson

/-- `{obj, run, pre: [op…], steps: [[null | nested run, op]…]}`: one call `obj.run(context of run)` -/
def callOfJson (j : Json) : Except String Call := do
  let steps ← (← (← j.getObjVal? "steps").getArr?).toList.mapM fun e => do
    match e with
    | .arr #[.null, o] => pure (Option.none, (← opOfJson o))
    | .arr #[r, o] => pure (some (← jsonNat? r), (← opOfJson o))
    | _ => throw "bad call step"
  pure ⟨← jsonNat? (← j.getObjVal? "obj"), ← jsonNat? (← j.getObjVal? "run"),
        ← opsOfJson (← j.getObjVal? "pre"), steps⟩

/-- The schedule of a request: `sched: [[r, op]…]` as it is, or `calls: [call…]` – a history of calls
    on `Pipeline` objects that start out fresh – turned into operations by `callsSched` under the
    `StepsRunner` rule of the code as it is (`perCall`; `rule: "keepFirst"` for what-if questions). -/
def schedOfJson (j : Json) : Except String Sched := do
  match j.getObjVal? "calls" with
  | .ok cs =>
    let calls ← (← cs.getArr?).toList.mapM callOfJson
    let rule ← match j.getObjVal? "rule" with
      | .ok (.str "keepFirst") => pure RunnerRule.keepFirst
      | .ok (.str "perCall") => pure RunnerRule.perCall
      | .ok r => throw s!"bad runner rule {r.compress}"
      | .error _ => pure RunnerRule.perCall
    pure (callsSched rule Objs.fresh calls)
  | .error _ =>
    (← (← j.getObjVal? "sched").getArr?).toList.mapM fun e => do
      match e with
      | .arr #[r, o] => pure ((← jsonNat? r), (← opOfJson o))
      | _ => throw "bad schedule entry"

/-- The same heap with the arenas of `regs` computed once and stored (a `Heap` is a function; after
    k operations it is a chain of k closures, and every read would run through all of them again).
    Regions outside `regs` still go through the original function: the result is extensionally `h`. -/
def materialize (regs : List Region) (h : Heap) : Heap :=
  let table := regs.map fun g => (g, h.arena g)
  ⟨fun g => match table.find? (fun e => e.1 == g) with
    | some e => e.2
    | none => h.arena g⟩

/-- `runExec` {defs: [block…], cfg: block, sched: [[r, op]…] | calls: [{obj, run, pre, steps}…], fuel?, watch?: [ref…]} →
    {steps: [{r, applied, ctx, foreign} after every operation, for the run that moved],
     sharedSame: every definition/config arena is still what the loader produced,
     sharedSameAt: index of the first operation after which that stopped being true (or null),
     watch: deep value of each watched address at the end, fixed: all operations are `Op.fixed`} -/
def runExec (j : Json) : Except String Json := do
  let defs ← (← (← j.getObjVal? "defs").getArr?).toList.mapM blockOfJson
  let cfg ← blockOfJson (← j.getObjVal? "cfg")
  let fuel := match j.getObjVal? "fuel" with
    | .ok f => (jsonNat? f).toOption.getD 64
    | .error _ => 64
  let sched ← schedOfJson j
  let watch ← match j.getObjVal? "watch" with
    | .ok w => (← w.getArr?).toList.mapM refOfJson
    | .error _ => pure []
  let n := defs.length
  let regs : List Region := (List.range n).map Region.defn ++ [Region.config] ++
    (sched.map fun e => Region.run e.1).eraseDups
  let h0 := materialize regs (Heap.init defs cfg)
  let rec go (h : Heap) (s : List (Nat × Op)) (i : Nat) (acc : List Json) (firstBad : Option Nat) :
      List Json × Heap × Option Nat :=
    match s with
    | [] => (acc.reverse, h, firstBad)
    | (r, op) :: rest =>
      let applied := (effect h r op).isSome
      let h1 := materialize regs (step h r op)
      let obs := Json.mkObj [("r", natJ r), ("applied", Json.bool applied),
        ("ctx", (deepVal fuel h1 (root r)).toJson),
        ("foreign", Json.arr ((foreignReach (4 * fuel + 4096) h1 r).map refToJson).toArray)]
      let fb := match firstBad with
        | some k => some k
        | none => if sharedSame n h0 h1 then none else some i
      go h1 rest (i + 1) (obs :: acc) fb
  let (steps, hEnd, firstBad) := go h0 sched 0 [] none
  pure (Json.mkObj [
    ("steps", Json.arr steps.toArray),
    ("sharedSame", Json.bool (sharedSame n h0 hEnd)),
    ("sharedSameAt", match firstBad with | some k => natJ k | none => Json.null),
    ("watch", Json.arr (watch.map fun x => (deepVal fuel hEnd x).toJson).toArray),
    ("fixed", Json.bool (sched.all fun e => e.2.fixed))])

def handle (op : String) (j : Json) : Except String Json :=
  match op with
  | "runExec" => runExec j
  | _ => .error s!"unknown op {op}"

end Pypyr.OpRunHeap

namespace Pypyr.OpHeap
open Lean (Json JsonNumber)
open Pypyr.FmtHeap

def fuelOf (j : Json) : Nat :=
  match j.getObjVal? "fuel" with
  | .ok f => (jsonNat? f).toOption.getD 64
  | .error _ => 64

def refsOfJson (j : Json) : Except String (List Ref) := do
  (← j.getArr?).toList.mapM jsonNat?

/-- `[tag, [refs…]]` -/
def taggedRefs (j : Json) : Except String (Nat × List Ref) := do
  match j with
  | .arr #[t, rs] => pure (← jsonNat? t, ← refsOfJson rs)
  | _ => throw "bad tagged refs"

def cellOfJson (j : Json) : Except String Cell := do
  if let .ok v := j.getObjVal? "leaf" then
    let w ← Val.ofJson v
    if isLeafVal w then return .leaf w else throw "leaf cell holds a non-leaf value"
  if let .ok s := j.getObjVal? "mbytes" then return .mbytes (← s.getStr?)   -- hex text, as {"b": hex}
  if let .ok s := j.getObjVal? "str" then return .str (← s.getStr?)
  if let .ok x := j.getObjVal? "list" then let (t, rs) ← taggedRefs x; return .list t rs
  if let .ok x := j.getObjVal? "tuple" then let (t, rs) ← taggedRefs x; return .tuple t rs
  if let .ok x := j.getObjVal? "set" then let (t, rs) ← taggedRefs x; return .set t rs
  if let .ok x := j.getObjVal? "dict" then
    match x with
    | .arr #[t, prs] =>
      let ps ← (← prs.getArr?).toList.mapM fun p => do
        match p with
        | .arr #[k, v] => pure ((← jsonNat? k), (← jsonNat? v))
        | _ => throw "bad dict cell pair"
      return .dict (← jsonNat? t) ps
    | _ => throw "bad dict cell"
  if let .ok r := j.getObjVal? "sic" then return .sic (← jsonNat? r)
  if let .ok n := j.getObjVal? "py" then return .pyName (← n.getStr?)
  if let .ok r := j.getObjVal? "jsonify" then return .jsonify (← jsonNat? r)
  throw s!"bad cell {j.compress}"

def natJ (n : Nat) : Json := Json.num (JsonNumber.fromNat n)
def refsJ (rs : List Ref) : Json := Json.arr (rs.map natJ).toArray

def cellToJson : Cell → Json
  | .leaf v => Json.mkObj [("leaf", v.toJson)]
  | .mbytes b => Json.mkObj [("mbytes", Json.str b)]
  | .str s => Json.mkObj [("str", Json.str s)]
  | .list t rs => Json.mkObj [("list", Json.arr #[natJ t, refsJ rs])]
  | .tuple t rs => Json.mkObj [("tuple", Json.arr #[natJ t, refsJ rs])]
  | .set t rs => Json.mkObj [("set", Json.arr #[natJ t, refsJ rs])]
  | .dict t kvs => Json.mkObj [("dict", Json.arr #[natJ t,
      Json.arr (kvs.map fun (k, v) => Json.arr #[natJ k, natJ v]).toArray])]
  | .sic r => Json.mkObj [("sic", natJ r)]
  | .pyName n => Json.mkObj [("py", Json.str n)]
  | .jsonify r => Json.mkObj [("jsonify", natJ r)]

/-- The heap must be a DAG in construction order (a cell refers to lower indices only), `sic`
    cells must point at str cells: what the harness can build as Python objects. -/
def cellOk (h : Heap) (i : Nat) (c : Cell) : Bool :=
  match c with
  | .list _ rs | .tuple _ rs | .set _ rs => rs.all (· < i)
  | .dict _ kvs => kvs.all fun kv => kv.1 < i && kv.2 < i
  | .sic r => r < i && (match h[r]? with | some (.str _) => true | _ => false)
  | .jsonify r => r < i
  | _ => true

def heapOk (h : Heap) : Bool := (List.range h.length).all fun i =>
  match h[i]? with
  | some c => cellOk h i c
  | none => false

def hctxOfJson (j : Json) : Except String HCtx := do
  (← j.getArr?).toList.mapM fun p => do
    match p with
    | .arr #[k, r] => pure ((← k.getStr?), (← jsonNat? r))
    | _ => throw "bad ctx pair"

def errJ (e : Exc) : Except String Json :=
  if e.name == "OutOfDomain" then .error ("out of domain: " ++ e.msg)
  else .ok (Json.mkObj [("err", e.toJson)])

/-- ops:
    `fmtHeap` {cells, ctx: [[key, ref]…], root, fuel?} → {ok: {root, cells (whole heap after), n0,
        val (tree value of the result), oldval (tree value of the input root afterwards)}} | {err};
    `fmtTree` {ctx, v, fuel?} → tree-level `fmtVal` + the C09 predicates of input and result. -/
def handle (op : String) (j : Json) : Except String Json := do
  match op with
  | "fmtHeap" =>
    let cells ← (← (← j.getObjVal? "cells").getArr?).toList.mapM cellOfJson
    if !heapOk cells then throw "heap is not a well-formed DAG"
    let ctx ← hctxOfJson (← j.getObjVal? "ctx")
    let root ← jsonNat? (← j.getObjVal? "root")
    if root ≥ cells.length || ctx.any (fun kr => kr.2 ≥ cells.length) then throw "dangling root/ctx ref"
    match fmtHeap (fuelOf j) ctx cells root with
    | .error e => errJ e
    | .ok (r, h) =>
      let valJ := match deepVal h r with | some v => v.toJson | none => Json.null
      pure (Json.mkObj [("ok", Json.mkObj [
        ("root", natJ r), ("n0", natJ cells.length),
        ("cells", Json.arr (h.map cellToJson).toArray),
        ("val", valJ)])])
  | "fmtTree" =>
    let ctx ← Ctx.ofJson (← j.getObjVal? "ctx")
    let v ← Val.ofJson (← j.getObjVal? "v")
    if !(wfVal v && keysHashable v) then throw "input value breaks the dict/set representation invariant"
    if !(ctx.all fun kv => wfVal kv.2 && keysHashable kv.2) then throw "context value breaks the representation invariant"
    let inPreds := [("braceFree", Json.bool (braceFree v))]
    match fmtVal (fuelOf j) ctx v with
    | .error e =>
      match errJ e with
      | .error m => .error m
      | .ok ej => pure (ej.mergeObj (Json.mkObj inPreds))
    | .ok r =>
      if !keysHashable r then throw "out of domain: result has an unhashable key or set member"
      pure (Json.mkObj ([("ok", r.toJson), ("resBraceFree", Json.bool (braceFree r)),
                         ("resWf", Json.bool (wfVal r))] ++ inPreds))
  | _ =>
    if op.startsWith "run" then Pypyr.OpRunHeap.handle op j else .error s!"unknown op {op}"

end Pypyr.OpHeap
