/- Driver ops for the heap-level formatting model (`PypyrModel/FmtHeap.lean`), area "heap".
   All ops here are prefixed `fmt…` (another builder may add further heap ops). -/
import Lean.Data.Json
import PypyrModel.Json
import PypyrModel.Fmt
import PypyrModel.FmtHeap

namespace Pypyr.OpHeap
open Lean (Json JsonNumber)
open Pypyr.FmtHeap

def fuelOf (j : Json) : Nat :=
  match j.getObjVal? "fuel" with
  | .ok f => (jsonNat? f).toOption.getD 64
  | .error _ => 64

def refsOfJson (j : Json) : Except String (List Ref) := do
  (← j.getArr?).toList.mapM jsonNat?

/-- `[tag, [refs…]]` -/
def taggedRefs (j : Json) : Except String (Nat × List Ref) := do
  match j with
  | .arr #[t, rs] => pure (← jsonNat? t, ← refsOfJson rs)
  | _ => throw "bad tagged refs"

def cellOfJson (j : Json) : Except String Cell := do
  if let .ok v := j.getObjVal? "leaf" then
    let w ← Val.ofJson v
    if isLeafVal w then return .leaf w else throw "leaf cell holds a non-leaf value"
  if let .ok s := j.getObjVal? "str" then return .str (← s.getStr?)
  if let .ok x := j.getObjVal? "list" then let (t, rs) ← taggedRefs x; return .list t rs
  if let .ok x := j.getObjVal? "tuple" then let (t, rs) ← taggedRefs x; return .tuple t rs
  if let .ok x := j.getObjVal? "set" then let (t, rs) ← taggedRefs x; return .set t rs
  if let .ok x := j.getObjVal? "dict" then
    match x with
    | .arr #[t, prs] =>
      let ps ← (← prs.getArr?).toList.mapM fun p => do
        match p with
        | .arr #[k, v] => pure ((← jsonNat? k), (← jsonNat? v))
        | _ => throw "bad dict cell pair"
      return .dict (← jsonNat? t) ps
    | _ => throw "bad dict cell"
  if let .ok r := j.getObjVal? "sic" then return .sic (← jsonNat? r)
  if let .ok n := j.getObjVal? "py" then return .pyName (← n.getStr?)
  if let .ok r := j.getObjVal? "jsonify" then return .jsonify (← jsonNat? r)
  throw s!"bad cell {j.compress}"

def natJ (n : Nat) : Json := Json.num (JsonNumber.fromNat n)
def refsJ (rs : List Ref) : Json := Json.arr (rs.map natJ).toArray

def cellToJson : Cell → Json
  | .leaf v => Json.mkObj [("leaf", v.toJson)]
  | .str s => Json.mkObj [("str", Json.str s)]
  | .list t rs => Json.mkObj [("list", Json.arr #[natJ t, refsJ rs])]
  | .tuple t rs => Json.mkObj [("tuple", Json.arr #[natJ t, refsJ rs])]
  | .set t rs => Json.mkObj [("set", Json.arr #[natJ t, refsJ rs])]
  | .dict t kvs => Json.mkObj [("dict", Json.arr #[natJ t,
      Json.arr (kvs.map fun (k, v) => Json.arr #[natJ k, natJ v]).toArray])]
  | .sic r => Json.mkObj [("sic", natJ r)]
  | .pyName n => Json.mkObj [("py", Json.str n)]
  | .jsonify r => Json.mkObj [("jsonify", natJ r)]

/-- The heap must be a DAG in construction order (a cell refers to lower indices only), `sic`
    cells must point at str cells: what the harness can build as Python objects. -/
def cellOk (h : Heap) (i : Nat) (c : Cell) : Bool :=
  match c with
  | .list _ rs | .tuple _ rs | .set _ rs => rs.all (· < i)
  | .dict _ kvs => kvs.all fun kv => kv.1 < i && kv.2 < i
  | .sic r => r < i && (match h[r]? with | some (.str _) => true | _ => false)
  | .jsonify r => r < i
  | _ => true

def heapOk (h : Heap) : Bool := (List.range h.length).all fun i =>
  match h[i]? with
  | some c => cellOk h i c
  | none => false

def hctxOfJson (j : Json) : Except String HCtx := do
  (← j.getArr?).toList.mapM fun p => do
    match p with
    | .arr #[k, r] => pure ((← k.getStr?), (← jsonNat? r))
    | _ => throw "bad ctx pair"

def errJ (e : Exc) : Except String Json :=
  if e.name == "OutOfDomain" then .error ("out of domain: " ++ e.msg)
  else .ok (Json.mkObj [("err", e.toJson)])

/-- ops:
    `fmtHeap` {cells, ctx: [[key, ref]…], root, fuel?} → {ok: {root, cells (whole heap after), n0,
        val (tree value of the result), oldval (tree value of the input root afterwards)}} | {err};
    `fmtTree` {ctx, v, fuel?} → tree-level `fmtVal` + the C09 predicates of input and result. -/
def handle (op : String) (j : Json) : Except String Json := do
  match op with
  | "fmtHeap" =>
    let cells ← (← (← j.getObjVal? "cells").getArr?).toList.mapM cellOfJson
    if !heapOk cells then throw "heap is not a well-formed DAG"
    let ctx ← hctxOfJson (← j.getObjVal? "ctx")
    let root ← jsonNat? (← j.getObjVal? "root")
    if root ≥ cells.length || ctx.any (fun kr => kr.2 ≥ cells.length) then throw "dangling root/ctx ref"
    match fmtHeap (fuelOf j) ctx cells root with
    | .error e => errJ e
    | .ok (r, h) =>
      let valJ := match deepVal h r with | some v => v.toJson | none => Json.null
      pure (Json.mkObj [("ok", Json.mkObj [
        ("root", natJ r), ("n0", natJ cells.length),
        ("cells", Json.arr (h.map cellToJson).toArray),
        ("val", valJ)])])
  | "fmtTree" =>
    let ctx ← Ctx.ofJson (← j.getObjVal? "ctx")
    let v ← Val.ofJson (← j.getObjVal? "v")
    if !(wfVal v && keysHashable v) then throw "input value breaks the dict/set representation invariant"
    if !(ctx.all fun kv => wfVal kv.2 && keysHashable kv.2) then throw "context value breaks the representation invariant"
    let inPreds := [("braceFree", Json.bool (braceFree v))]
    match fmtVal (fuelOf j) ctx v with
    | .error e =>
      match errJ e with
      | .error m => .error m
      | .ok ej => pure (ej.mergeObj (Json.mkObj inPreds))
    | .ok r =>
      if !keysHashable r then throw "out of domain: result has an unhashable key or set member"
      pure (Json.mkObj ([("ok", r.toJson), ("resBraceFree", Json.bool (braceFree r)),
                         ("resWf", Json.bool (wfVal r))] ++ inPreds))
  | _ => .error s!"unknown op {op}"

end Pypyr.OpHeap
