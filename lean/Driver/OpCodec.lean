/- Driver ops for the Codec model (C16). -/
import Lean.Data.Json
import PypyrModel.Json
import PypyrModel.Codec

namespace Pypyr.OpCodec
open Lean (Json)
open Pypyr.Codec

def fuelOf (j : Json) : Nat :=
  match j.getObjVal? "fuel" with
  | .ok f => (jsonNat? f).toOption.getD 64
  | .error _ => 64

def formatOf (j : Json) : Except String Format := do
  match ← (← j.getObjVal? "format").getStr? with
  | "json" => pure .json
  | "yaml" => pure .yaml
  | "toml" => pure .toml
  | s => throw s!"unknown format {s}"

mutual
/-- TOML-representable below the top level: no None, string keys. -/
def isToml : Val → Bool
  | .bool _ => true
  | .int _ => true
  | .flt _ _ => true
  | .str _ => true
  | .list xs => isTomlList xs
  | .dict kvs => isTomlPairs kvs
  | _ => false
def isTomlList : List Val → Bool
  | [] => true
  | x :: xs => isToml x && isTomlList xs
def isTomlPairs : List (Val × Val) → Bool
  | [] => true
  | (k, v) :: rest => Json.isStr k && isToml v && isTomlPairs rest
end

/-- What the real serialiser of each format accepts (the ideal codec's `enc`). -/
def representable (f : Format) (d : Val) : Bool :=
  match f with
  | .json => Json.isJson true d
  | .yaml => isDoc d
  | .toml => match d with
    | .dict _ => isToml d
    | _ => false

def idealFor (f : Format) : Codec Val :=
  { enc := fun d => if representable f d then some d else none, dec := some }

/-- Errors: OutOfDomain / OutOfFuel are protocol-level rejects, never observations. -/
def excResult {α} (f : α → Json) (r : Except Exc α) : Except String Json :=
  match r with
  | .error e =>
    if e.name == "OutOfDomain" then .error ("out of domain: " ++ e.msg)
    else if e.name == "OutOfFuel" then .error "out of fuel"
    else .ok (Json.mkObj [("err", e.toJson)])
  | .ok a => .ok (Json.mkObj [("ok", f a)])

def prToJson : Json.PR Val → Json
  | .ok v _ => Json.mkObj [("ok", v.toJson)]
  | .bad => Json.mkObj [("bad", true)]
  | .outside => Json.mkObj [("outside", true)]

def optStr (j : Json) (k : String) : Option String :=
  match j.getObjVal? k with
  | .ok (.str v) => some v
  | _ => none

def sopOfJson (j : Json) : Except String SOp := do
  let f ← formatOf j
  let ctx ← Ctx.ofJson (← j.getObjVal? "ctx")
  match ← (← j.getObjVal? "op").getStr? with
  | "write" => pure (.write f ctx)
  | "fetch" => pure (.fetch f ctx)
  | "format" => pure (.format f ctx (← (← j.getObjVal? "in").getStr?) (optStr j "out"))
  | s => throw s!"unknown session op {s}"

def sobsToJson : SObs → Except String Json
  | .wrote => pure (Json.str "wrote")
  | .formatted => pure (Json.str "formatted")
  | .fetched cx => pure (Json.mkObj [("fetched", Ctx.toJson cx)])
  | .failed e =>
    if e.name == "OutOfDomain" then throw ("out of domain: " ++ e.msg)
    else if e.name == "OutOfFuel" then throw "out of fuel"
    else pure (Json.mkObj [("failed", e.toJson)])

/-- ops:
    `fmtdoc`     {ctx, doc}                 → formatted document
    `fileformat` {format, ctx, doc}         → ObjectRewriter at value level (ideal codec)
                 … + {enc: {encoding?, encodingIn?, encodingOut?}, out: null|path} → file level: {ok, enc, target}
    `session`    {files, ops}               → `runSession`: observations of every op + the files afterwards
    `write`      {format, ctx}              → {path, payload} handed to the serialiser, or err
    `writefetch` {format, ctx, ctx2}        → context after filewrite(ctx) then fetch(ctx2)
    `parser`     {format, doc}              → file context parser on a file holding doc
    `jsonprint`  {doc}                      → text of json.dump(doc, indent=2, ensure_ascii=False)
    `jsonparse`  {text}                     → json.loads(text): ok doc | bad | outside -/
def handle (op : String) (j : Json) : Except String Json := do
  match op with
  | "fmtdoc" =>
    let ctx ← Ctx.ofJson (← j.getObjVal? "ctx")
    let d ← Val.ofJson (← j.getObjVal? "doc")
    if !isDoc d then throw "not a document tree"
    excResult Val.toJson (fmtDoc (fuelOf j) ctx d)
  | "fileformat" =>
    let f ← formatOf j
    let ctx ← Ctx.ofJson (← j.getObjVal? "ctx")
    let d ← Val.ofJson (← j.getObjVal? "doc")
    if !representable f d then throw "source document not representable in the format"
    match j.getObjVal? "enc" with
    | .error _ => excResult Val.toJson (fileFormatDoc (idealFor f) (fuelOf j) ctx d)
    | .ok ej =>
      -- file level: {enc: {encoding?, encodingIn?, encodingOut?}, out: null | path}; the source is "in"
      if f == .toml then throw "toml files are binary: no encoding options"
      let o : EncOpts := { encoding := optStr ej "encoding", encodingIn := optStr ej "encodingIn",
                           encodingOut := optStr ej "encodingOut" }
      let out := optStr j "out"
      let files : Files (Stored Val) := [("in", ⟨o.inEnc "utf-8", d⟩)]
      match fileFormatFile (idealFor f) (fuelOf j) ctx files "in" out o "utf-8" with
      | .error e =>
        if e.name == "OutOfDomain" then throw ("out of domain: " ++ e.msg)
        else if e.name == "OutOfFuel" then throw "out of fuel"
        else pure (Json.mkObj [("err", e.toJson)])
      | .ok files' =>
        match files'.get? (targetOf "in" out) with
        | none => throw "no target file"
        | some st => pure (Json.mkObj [("ok", st.text.toJson), ("enc", st.enc), ("target", targetOf "in" out),
            ("sourceKept", (files'.get? "in").map (·.enc) == some (if targetOf "in" out == "in" then st.enc else o.inEnc "utf-8"))])
  | "write" =>
    let f ← formatOf j
    let ctx ← Ctx.ofJson (← j.getObjVal? "ctx")
    excResult (fun (pp : String × Val) => Json.mkObj [("path", pp.1), ("payload", pp.2.toJson),
        ("representable", representable f pp.2)])
      (writePayload f (fuelOf j) ctx)
  | "writefetch" =>
    let f ← formatOf j
    let ctx ← Ctx.ofJson (← j.getObjVal? "ctx")
    let ctx2 ← Ctx.ofJson (← j.getObjVal? "ctx2")
    let c := idealFor f
    match fileWrite f c (fuelOf j) ctx [] with
    | .error e =>
      if e.name == "OutOfDomain" then throw ("out of domain: " ++ e.msg)
      else if e.name == "OutOfFuel" then throw "out of fuel"
      else pure (Json.mkObj [("write", Json.mkObj [("err", e.toJson)])])
    | .ok files =>
      let r ← excResult Ctx.toJson (fetch f c (fuelOf j) ctx2 files)
      pure (Json.mkObj [("write", Json.mkObj [("ok", Json.arr (files.map fun (p, v) =>
              Json.arr #[Json.str p, v.toJson]).toArray)]), ("fetch", r)])
  | "session" =>
    -- {files: [[path, doc]], ops: [{op, format, ctx, in?, out?}]}: `runSession` with the ideal codecs
    let fl ← (← (← j.getObjVal? "files").getArr?).toList.mapM fun p => do
      match p with
      | .arr #[k, v] => do
        let d ← Val.ofJson v
        if !isDoc d then throw "not a document tree"
        pure ((← k.getStr?), d)
      | _ => throw "file entry must be [path, doc]"
    let ops ← (← (← j.getObjVal? "ops").getArr?).toList.mapM sopOfJson
    let r := runSession idealFor (fuelOf j) fl ops
    let obs ← r.2.mapM sobsToJson
    pure (Json.mkObj [("obs", Json.arr obs.toArray),
      ("files", Json.arr (r.1.map fun (p, v) => Json.arr #[Json.str p, v.toJson]).toArray)])
  | "parser" =>
    let f ← formatOf j
    let d ← Val.ofJson (← j.getObjVal? "doc")
    if !isDoc d then throw "not a document tree"
    excResult Val.toJson (fileParser (idealFor f) d)
  | "jsonprint" =>
    let d ← Val.ofJson (← j.getObjVal? "doc")
    if !Json.isJson true d then throw "not in the JSON domain"
    pure (Json.mkObj [("text", Json.str (String.ofList (Json.print d)))])
  | "jsonparse" =>
    let t ← (← j.getObjVal? "text").getStr?
    pure (prToJson (Json.parse t.toList))
  | _ => .error s!"unknown op {op}"

end Pypyr.OpCodec
