/- Driver ops for the Codec model (C16). -/
import Lean.Data.Json
import PypyrModel.Json
import PypyrModel.Codec

namespace Pypyr.OpCodec
open Lean (Json)
open Pypyr.Codec

def fuelOf (j : Json) : Nat :=
  match j.getObjVal? "fuel" with
  | .ok f => (jsonNat? f).toOption.getD 64
  | .error _ => 64

def formatOf (j : Json) : Except String Format := do
  match ← (← j.getObjVal? "format").getStr? with
  | "json" => pure .json
  | "yaml" => pure .yaml
  | "toml" => pure .toml
  | s => throw s!"unknown format {s}"

mutual
/-- TOML-representable below the top level: no None, string keys. -/
def isToml : Val → Bool
  | .bool _ => true
  | .int _ => true
  | .flt _ _ => true
  | .str _ => true
  | .list xs => isTomlList xs
  | .dict kvs => isTomlPairs kvs
  | _ => false
def isTomlList : List Val → Bool
  | [] => true
  | x :: xs => isToml x && isTomlList xs
def isTomlPairs : List (Val × Val) → Bool
  | [] => true
  | (k, v) :: rest => Json.isStr k && isToml v && isTomlPairs rest
end

/-- What the real serialiser of each format accepts (the ideal codec's `enc`). JSON: str/int/float/
    bool/None keys (`json.dump` writes them as strings), any float. -/
def representable (f : Format) (d : Val) : Bool :=
  match f with
  | .json => Json.isJsonK false d
  | .yaml => isDoc d
  | .toml => match d with
    | .dict _ => isToml d
    | _ => false

/-- The value-level codec of a format: `dec (enc d)` is what a write → read cycle gives back. For
    JSON that is `d` with its keys coerced to the strings `json.dump` writes (`Json.coerceKeys`;
    `Json.parse (Json.print o d) = coerceKeys d` is `json_roundtrip_coerce`). -/
def idealFor (f : Format) : Codec Val :=
  { enc := fun d => if representable f d then some (if f = .json then Json.coerceKeys d else d) else none,
    dec := some }

/-- `indent` / `ascii` of a `jsonprint` request: `indent` absent → 2, `null` → `indent=None`, a
    number → that indent; `ascii` absent → false. -/
def jsonOptsOf (j : Json) : Except String Json.Opts := do
  let ind ← match j.getObjVal? "indent" with
    | .error _ => pure (some 2)
    | .ok .null => pure none
    | .ok n => do pure (some (← jsonNat? n))
  let ascii ← match j.getObjVal? "ascii" with
    | .error _ => pure false
    | .ok b => b.getBool?
  pure { ind := ind, ascii := ascii }

/-- Errors: OutOfDomain / OutOfFuel are protocol-level rejects, never observations. -/
def excResult {α} (f : α → Json) (r : Except Exc α) : Except String Json :=
  match r with
  | .error e =>
    if e.name == "OutOfDomain" then .error ("out of domain: " ++ e.msg)
    else if e.name == "OutOfFuel" then .error "out of fuel"
    else .ok (Json.mkObj [("err", e.toJson)])
  | .ok a => .ok (Json.mkObj [("ok", f a)])

def prToJson : Json.PR Val → Json
  | .ok v _ => Json.mkObj [("ok", v.toJson)]
  | .bad => Json.mkObj [("bad", true)]
  | .outside => Json.mkObj [("outside", true)]

def optStr (j : Json) (k : String) : Option String :=
  match j.getObjVal? k with
  | .ok (.str v) => some v
  | _ => none

def sopOfJson (j : Json) : Except String SOp := do
  let f ← formatOf j
  let ctx ← Ctx.ofJson (← j.getObjVal? "ctx")
  match ← (← j.getObjVal? "op").getStr? with
  | "write" => pure (.write f ctx)
  | "fetch" => pure (.fetch f ctx)
  | "format" => pure (.format f ctx (← (← j.getObjVal? "in").getStr?) (optStr j "out"))
  | s => throw s!"unknown session op {s}"

def sobsToJson : SObs → Except String Json
  | .wrote => pure (Json.str "wrote")
  | .formatted => pure (Json.str "formatted")
  | .fetched cx => pure (Json.mkObj [("fetched", Ctx.toJson cx)])
  | .failed e =>
    if e.name == "OutOfDomain" then throw ("out of domain: " ++ e.msg)
    else if e.name == "OutOfFuel" then throw "out of fuel"
    else pure (Json.mkObj [("failed", e.toJson)])

/-- One step of a `ctxsession` request: {op: put, path, doc} | {op: write|fetch, format, input}. -/
def copOfJson (j : Json) : Except String (COp Val) := do
  match ← (← j.getObjVal? "op").getStr? with
  | "put" =>
    let d ← Val.ofJson (← j.getObjVal? "doc")
    if !isDoc d then throw "not a document tree"
    pure (.put (← (← j.getObjVal? "path").getStr?) d)
  | "write" => pure (.write (← formatOf j) (← Val.ofJson (← j.getObjVal? "input")))
  | "fetch" => pure (.fetch (← formatOf j) (← Val.ofJson (← j.getObjVal? "input")))
  | s => throw s!"unknown ctxsession op {s}"

/-- `config.default_encoding` on the wire: absent or null = not set (`none`), else a string. -/
def dfltOf (j : Json) (k : String) : Except String (Option String) :=
  match j.getObjVal? k with
  | .error _ => pure none
  | .ok .null => pure none
  | .ok (.str s) => pure (some s)
  | .ok _ => throw s!"{k} must be null or a string"

/-- The context arguments of the command line on the wire: null = `None`, else a list of strings. -/
def argsOf (j : Json) : Except String (Option (List String)) := do
  match ← j.getObjVal? "args" with
  | .null => pure none
  | .arr xs => pure (some (← xs.toList.mapM (·.getStr?)))
  | _ => throw "args must be null or a list of strings"

/-- An error of the model as an observation; OutOfDomain / OutOfFuel are protocol-level rejects. -/
def errObs (e : Exc) : Except String Json :=
  if e.name == "OutOfDomain" then throw ("out of domain: " ++ e.msg)
  else if e.name == "OutOfFuel" then throw "out of fuel"
  else pure (Json.mkObj [("err", e.toJson)])

/-- ops:
    `fmtdoc`     {ctx, doc}                 → formatted document
    `fileformat` {format, ctx, doc}         → ObjectRewriter at value level (ideal codec)
                 … + {enc: {encoding?, encodingIn?, encodingOut?}, out: null|path} → file level: {ok, enc, target}
    `session`    {files, ops}               → `runSession`: observations of every op + the files afterwards
    `write`      {format, ctx}              → {path, payload} handed to the serialiser, or err
    `writefetch` {format, ctx, ctx2, dflt?, dfltFetch?}
                 FILE level (`fileWriteStored` into an empty file system, then `fetchStored`), ideal codec of the
                 format. `ctx` / `ctx2` carry the step inputs (`fileWriteX` / `fetchX`, with their `encoding` entry
                 where given — a string, or null for an explicit `None`). `dflt` = `config.default_encoding` while the
                 write step runs (absent/null = not set), `dfltFetch` = while the fetch step runs (absent = `dflt`).
                 → {"write": {"err": exc}} | {"write": {"ok": [[path, doc]], "enc": name}, "fetch": {"ok": ctx} | {"err": exc}}
    `ctxsession` {ctx, ops}                 → `runC`: steps on ONE context ({op: put, path, doc} = a file placed on disk,
                 {op: write|fetch, format, input} = the step with `in: {fileWriteX|fetchX: input}`), ideal codecs:
                 {"obs": [{"ok": ctx} | {"err": exc}, ...]} — the context after every step, up to the first that raises
    `parser`     {format, doc}              → value level: the parser's top-level check on a file holding doc
                 {format, ctx, args, dflt?, dfltParse?}
                 FILE level: `fileWriteStored` (input in `ctx`, config default `dflt`) into an empty file system, then
                 `fileParserArgs` = `get_parsed_context(args)` of the format's file context parser under config default
                 `dfltParse` (absent = `dflt`). `args`: null (`None`) or a list of strings (joined with single spaces
                 to the path). → {"write": {"err": exc}} |
                 {"write": {"ok": [[path, doc]], "enc": name}, "parserEnc": name,
                  "parser": {"ok": doc} | {"none": true} (the parser returned None) | {"err": exc}};
                 `ctx: null` = no write step: the parser runs on an empty file system ("write" is then absent).
    `jsonprint`  {doc, indent?, ascii?}     → text of json.dump(doc, indent=indent, ensure_ascii=ascii) (indent: nat | null;
                                              defaults 2 / false) + `coerced`: the document with its keys as written
                 (rejects documents outside `isJsonK true`: other key/node types, floats outside `fltOk`)
    `jsonparse`  {text}                     → json.loads(text): ok doc | bad | outside -/
def handle (op : String) (j : Json) : Except String Json := do
  match op with
  | "fmtdoc" =>
    let ctx ← Ctx.ofJson (← j.getObjVal? "ctx")
    let d ← Val.ofJson (← j.getObjVal? "doc")
    if !isDoc d then throw "not a document tree"
    excResult Val.toJson (fmtDoc (fuelOf j) ctx d)
  | "fileformat" =>
    let f ← formatOf j
    let ctx ← Ctx.ofJson (← j.getObjVal? "ctx")
    let d ← Val.ofJson (← j.getObjVal? "doc")
    if !representable f d then throw "source document not representable in the format"
    match j.getObjVal? "enc" with
    | .error _ => excResult Val.toJson (fileFormatDoc (idealFor f) (fuelOf j) ctx d)
    | .ok ej =>
      -- file level: {enc: {encoding?, encodingIn?, encodingOut?}, out: null | path}; the source is "in"
      if f == .toml then throw "toml files are binary: no encoding options"
      let o : EncOpts := { encoding := optStr ej "encoding", encodingIn := optStr ej "encodingIn",
                           encodingOut := optStr ej "encodingOut" }
      let out := optStr j "out"
      let files : Files (Stored Val) := [("in", ⟨o.inEnc "utf-8", d⟩)]
      match fileFormatFile (idealFor f) (fuelOf j) ctx files "in" out o "utf-8" with
      | .error e =>
        if e.name == "OutOfDomain" then throw ("out of domain: " ++ e.msg)
        else if e.name == "OutOfFuel" then throw "out of fuel"
        else pure (Json.mkObj [("err", e.toJson)])
      | .ok files' =>
        match files'.get? (targetOf "in" out) with
        | none => throw "no target file"
        | some st => pure (Json.mkObj [("ok", st.text.toJson), ("enc", st.enc), ("target", targetOf "in" out),
            ("sourceKept", (files'.get? "in").map (·.enc) == some (if targetOf "in" out == "in" then st.enc else o.inEnc "utf-8"))])
  | "write" =>
    let f ← formatOf j
    let ctx ← Ctx.ofJson (← j.getObjVal? "ctx")
    excResult (fun (pp : String × Val) => Json.mkObj [("path", pp.1), ("payload", pp.2.toJson),
        ("representable", representable f pp.2)])
      (writePayload f (fuelOf j) ctx)
  | "writefetch" =>
    let f ← formatOf j
    let ctx ← Ctx.ofJson (← j.getObjVal? "ctx")
    let ctx2 ← Ctx.ofJson (← j.getObjVal? "ctx2")
    let c := idealFor f
    let dflt ← dfltOf j "dflt"
    let dfltFetch ← match j.getObjVal? "dfltFetch" with
      | .error _ => pure dflt
      | .ok _ => dfltOf j "dfltFetch"
    match fileWriteStored f c (fuelOf j) ctx dflt [] with
    | .error e => pure (Json.mkObj [("write", ← errObs e)])
    | .ok files =>
      let r ← excResult Ctx.toJson (fetchStored f c (fuelOf j) ctx2 dfltFetch files)
      pure (Json.mkObj [("write", Json.mkObj [("ok", Json.arr (files.map fun (p, s) =>
              Json.arr #[Json.str p, s.text.toJson]).toArray),
              ("enc", match files with | (_, s) :: _ => Json.str s.enc | [] => Json.null)]), ("fetch", r)])
  | "session" =>
    -- {files: [[path, doc]], ops: [{op, format, ctx, in?, out?}]}: `runSession` with the ideal codecs
    let fl ← (← (← j.getObjVal? "files").getArr?).toList.mapM fun p => do
      match p with
      | .arr #[k, v] => do
        let d ← Val.ofJson v
        if !isDoc d then throw "not a document tree"
        pure ((← k.getStr?), d)
      | _ => throw "file entry must be [path, doc]"
    let ops ← (← (← j.getObjVal? "ops").getArr?).toList.mapM sopOfJson
    let r := runSession idealFor (fuelOf j) fl ops
    let obs ← r.2.mapM sobsToJson
    pure (Json.mkObj [("obs", Json.arr obs.toArray),
      ("files", Json.arr (r.1.map fun (p, v) => Json.arr #[Json.str p, v.toJson]).toArray)])
  | "ctxsession" =>
    let ctx ← Ctx.ofJson (← j.getObjVal? "ctx")
    let ops ← (← (← j.getObjVal? "ops").getArr?).toList.mapM copOfJson
    let obs ← (runC idealFor (fuelOf j) ctx [] ops).mapM fun r =>
      match r with
      | .ok cx => pure (Json.mkObj [("ok", Ctx.toJson cx)])
      | .error e => errObs e
    pure (Json.mkObj [("obs", Json.arr obs.toArray)])
  | "parser" =>
    let f ← formatOf j
    match j.getObjVal? "doc" with
    | .ok dj =>
      let d ← Val.ofJson dj
      if !isDoc d then throw "not a document tree"
      excResult Val.toJson (fileParser (idealFor f) d)
    | .error _ =>
      -- file level: {format, ctx | null, args, dflt?, dfltParse?}
      let c := idealFor f
      let dflt ← dfltOf j "dflt"
      let dfltParse ← match j.getObjVal? "dfltParse" with
        | .error _ => pure dflt
        | .ok _ => dfltOf j "dfltParse"
      let args ← argsOf j
      let parse (files : Files (Stored Val)) : Except String Json :=
        match fileParserArgs f c dfltParse args files with
        | .error e => errObs e
        | .ok none => pure (Json.mkObj [("none", true)])
        | .ok (some v) => pure (Json.mkObj [("ok", v.toJson)])
      match ← j.getObjVal? "ctx" with
      | .null => pure (Json.mkObj [("parserEnc", Json.str (parserEnc f dfltParse)), ("parser", ← parse [])])
      | cj =>
        let ctx ← Ctx.ofJson cj
        match fileWriteStored f c (fuelOf j) ctx dflt [] with
        | .error e => pure (Json.mkObj [("write", ← errObs e)])
        | .ok files =>
          pure (Json.mkObj [("write", Json.mkObj [("ok", Json.arr (files.map fun (p, s) =>
                  Json.arr #[Json.str p, s.text.toJson]).toArray),
                  ("enc", match files with | (_, s) :: _ => Json.str s.enc | [] => Json.null)]),
                ("parserEnc", Json.str (parserEnc f dfltParse)), ("parser", ← parse files)])
  | "jsonprint" =>
    let d ← Val.ofJson (← j.getObjVal? "doc")
    if !Json.isJsonK true d then throw "not in the JSON domain"
    let o ← jsonOptsOf j
    pure (Json.mkObj [("text", Json.str (String.ofList (Json.print o d))),
                      ("coerced", (Json.coerceKeys d).toJson)])
  | "jsonparse" =>
    let t ← (← j.getObjVal? "text").getStr?
    pure (prToJson (Json.parse t.toList))
  | _ => .error s!"unknown op {op}"

end Pypyr.OpCodec
