/- Driver ops for the faithful formatting model (`PypyrModel/Format*.lean`, C08). -/
import Lean.Data.Json
import PypyrModel.Json
import PypyrModel.Fmt
import PypyrModel.FmtParse
import PypyrModel.Format
import PypyrModel.FormatSpec
import PypyrModel.FormatSession

namespace Pypyr.OpFormat
open Lean (Json)
open Pypyr.Format

def fuelOf (j : Json) : Nat :=
  match j.getObjVal? "fuel" with
  | .ok f => (jsonNat? f).toOption.getD 64
  | .error _ => 64

def excToResult {α} (f : α → Json) (r : Except Exc α) : Except String Json :=
  match r with
  | .error e => if e.name == "OutOfDomain" then .error ("out of domain: " ++ e.msg)
                else .ok (Json.mkObj [("err", e.toJson)])
  | .ok a => .ok (Json.mkObj [("ok", f a)])

def cs (l : List Char) : Json := Json.str (String.ofList l)

def optErr : Option Exc → Json
  | none => Json.null
  | some e => e.toJson

def tupJson (t : Tup) : Json :=
  match t.field with
  | none => Json.arr #[cs t.lit, Json.null, Json.null, Json.null]
  | some f => Json.arr #[cs t.lit, cs f.name, cs f.spec,
      match f.conv with | none => Json.null | some c => Json.str (String.singleton c)]

def keyJson : Key → Json
  | .int n => Json.num (Lean.JsonNumber.fromNat n)
  | .str s => cs s

def accJson : Accessor → Json
  | .attr n => Json.arr #[Json.bool true, cs n]
  | .item k => Json.arr #[Json.bool false, keyJson k]

def pieceJson : Format.Piece → Json
  | .lit s => Json.mkObj [("lit", Json.str s)]
  | .field n c s => Json.mkObj [("name", Json.str n), ("spec", Json.str s),
      ("conv", match c with | none => Json.null | some c => Json.str (String.singleton c))]


/-- wire form of `PyW`: the wire form of `PyExpr` plus `{"w": [x, e]}` for `(x := e)` -/
partial def pyWOfJson (j : Json) : Except String PyW := do
  if let .ok n := j.getObjVal? "n" then
    return .name (← n.getStr?)
  if let .ok c := j.getObjVal? "c" then
    return .const (← PyConst.ofJson c)
  if let .ok a := j.getObjVal? "not" then
    return .not (← pyWOfJson a)
  if let .ok a := j.getObjVal? "len" then
    return .len (← pyWOfJson a)
  if let .ok ai := j.getObjVal? "idx" then
    match ai with
    | .arr #[a, i] => return .idx (← pyWOfJson a) (← pyWOfJson i)
    | _ => throw "bad idx"
  if let .ok w := j.getObjVal? "w" then
    match w with
    | .arr #[x, a] => return .walrus (← x.getStr?) (← pyWOfJson a)
    | _ => throw "bad walrus"
  if let .ok op := j.getObjVal? "op" then
    let s ← op.getStr?
    match PyOp.ofStr? s with
    | some o =>
      let a ← pyWOfJson (← j.getObjVal? "a")
      let b ← pyWOfJson (← j.getObjVal? "b")
      return .binop o a b
    | none => throw s!"bad op {s}"
  throw s!"bad py expr {j.compress}"

/-- one call of a session: {"fmt": V} | {"pyw": E} | {"set": [k, V]} | {"del": k} | {"opaque": …} -/
def callOfJson (j : Json) : Except String Call := do
  if let .ok v := j.getObjVal? "fmt" then
    return .fmt (← Val.ofJson v)
  if let .ok e := j.getObjVal? "pyw" then
    return .py (← pyWOfJson e)
  if let .ok kv := j.getObjVal? "set" then
    match kv with
    | .arr #[k, v] => return .set (← k.getStr?) (← Val.ofJson v)
    | _ => throw "bad set"
  if let .ok k := j.getObjVal? "del" then
    return .del (← k.getStr?)
  if let .ok _ := j.getObjVal? "opaque" then
    return .opaque
  throw s!"bad call {j.compress}"

/-- the documented result (`Spec.format`) of formatting the string `s` at top level -/
def specFormat (fuel : Nat) (ctx : Ctx) (isRec : Bool) (s : String) : Except Exc Val :=
  match parseTuples s.toList with
  | (_, some e) => .error e
  | (ts, none) => Spec.format (fun r v => Format.fmtIter fuel ctx r v) ctx isRec (parts ts)

/-- ops:
    `fmt` {ctx, v, fuel?}     → `Format.fmtVal`
    `asbool` {ctx, v}         → `Format.fmtAsBool`
    `parse` {s}               → tuples of `formatter_parser` + the error raised after them
    `pieces` {s}              → `parseFmt`
    `split` {s}               → `formatter_field_name_split`
    `getfield` {ctx, name}    → `get_field`
    `field` {v, spec}         → `format(v, spec)`
    `convert` {v, conv}       → `convert_field`
    `vformat` {ctx, s}        → base-class `Formatter.vformat(s, None, ctx)` (= `str.format_map` on the flat subset)
    `spec` {ctx, s, fuel?}    → `Spec.format` of a top-level string (the documented result)
    `both` {ctx, v, fuel?}    → basic model (`Pypyr.fmtVal`) and faithful model side by side
    `attrs` {names}           → which attribute names are in the modelled domain
    `session` {ctx, calls, fuel?} → `runCalls`: one entry per call, null for updates / opaque calls -/
def handle (op : String) (j : Json) : Except String Json := do
  match op with
  | "fmt" =>
    let ctx ← Ctx.ofJson (← j.getObjVal? "ctx")
    let v ← Val.ofJson (← j.getObjVal? "v")
    excToResult Val.toJson (Format.fmtVal (fuelOf j) ctx v)
  | "asbool" =>
    let ctx ← Ctx.ofJson (← j.getObjVal? "ctx")
    let v ← Val.ofJson (← j.getObjVal? "v")
    excToResult Json.bool (Format.fmtAsBool (fuelOf j) ctx v)
  | "parse" =>
    let s ← (← j.getObjVal? "s").getStr?
    let (ts, err) := parseTuples s.toList
    pure (Json.mkObj [("tuples", Json.arr (ts.map tupJson).toArray), ("err", optErr err)])
  | "pieces" =>
    let s ← (← j.getObjVal? "s").getStr?
    pure (resultToJson (fun ps => Json.arr (ps.map pieceJson).toArray) (parseFmt s))
  | "split" =>
    let s ← (← j.getObjVal? "s").getStr?
    match splitField s.toList with
    | .error e => pure (Json.mkObj [("early", e.toJson)])
    | .ok (first, accs, err) =>
      pure (Json.mkObj [("first", keyJson first), ("rest", Json.arr (accs.map accJson).toArray), ("err", optErr err)])
  | "getfield" =>
    let ctx ← Ctx.ofJson (← j.getObjVal? "ctx")
    let s ← (← j.getObjVal? "name").getStr?
    excToResult Val.toJson (getField ctx s.toList)
  | "field" =>
    let v ← Val.ofJson (← j.getObjVal? "v")
    let s ← (← j.getObjVal? "spec").getStr?
    excToResult cs (formatField v s.toList)
  | "convert" =>
    let v ← Val.ofJson (← j.getObjVal? "v")
    let c ← (← j.getObjVal? "conv").getStr?
    match c.toList with
    | [ch] => excToResult Val.toJson (convertField v (some ch))
    | _ => .error "conv must be one character"
  | "vformat" =>
    let ctx ← Ctx.ofJson (← j.getObjVal? "ctx")
    let s ← (← j.getObjVal? "s").getStr?
    excToResult cs ((vfmt 3 ctx s.toList (some 0)).map (·.1))
  | "spec" =>
    let ctx ← Ctx.ofJson (← j.getObjVal? "ctx")
    let s ← (← j.getObjVal? "s").getStr?
    match fuelOf j with
    | 0 => .error "fuel must be at least 2"
    | 1 => .error "fuel must be at least 2"
    | fuel + 2 => excToResult Val.toJson (specFormat fuel ctx false s)
  | "both" =>
    let ctx ← Ctx.ofJson (← j.getObjVal? "ctx")
    let v ← Val.ofJson (← j.getObjVal? "v")
    match Pypyr.fmtVal (fuelOf j) ctx v with
    | .error ⟨"OutOfDomain", m⟩ => .error ("outside the basic grammar: " ++ m)
    | b =>
      let f ← excToResult Val.toJson (Format.fmtVal (fuelOf j) ctx v)
      pure (Json.mkObj [("basic", resultToJson Val.toJson b), ("faithful", f)])
  | "attrs" =>
    let names ← (← j.getObjVal? "names").getArr?
    let flags ← names.toList.mapM fun n => do
      let s ← n.getStr?
      pure (Json.bool (attrInDomain s.toList))
    pure (Json.arr flags.toArray)
  | "session" =>
    let ctx ← Ctx.ofJson (← j.getObjVal? "ctx")
    let calls ← (← (← j.getObjVal? "calls").getArr?).toList.mapM callOfJson
    let steps ← (runCalls (fuelOf j) ctx calls).mapM fun r =>
      match r with
      | none => pure Json.null
      | some x => excToResult Val.toJson x
    pure (Json.mkObj [("steps", Json.arr steps.toArray)])
  | _ => .error s!"unknown op {op}"

end Pypyr.OpFormat
