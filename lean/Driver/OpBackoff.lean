/- Driver ops for the Backoff model. Stub until the model lands. -/
import Lean.Data.Json
import PypyrModel.Json

namespace Pypyr.OpBackoff
open Lean (Json)

/-- Handle one request object (already parsed); `Except.error` = protocol-level reject. -/
def handle (_op : String) (_j : Json) : Except String Json :=
  .error "not implemented"

end Pypyr.OpBackoff
