/-
  Driver ops for the back-off model (`PypyrModel/Backoff.lean`).

  `backoff.schedule` {kind, sleep, sleepMax, jrc, base, n, rnd}
     numbers on the wire: a JSON integer, or `{"f": [num, k]}` = num / 2^k.
     sleep: number | non-empty list of numbers (list: `fixed` / `jitter` only)
     sleepMax: number | null;  base: number | null (null = no `backoffArgs`, the default base)
     n: how many calls `backoff_callable(1) … backoff_callable(n)`
     rnd: the scripted `random.uniform` fractions, one per call of a jitter strategy
   → {"intervals": [number…], "rndLeft": how many scripted fractions were not consumed}

  `schedule` below is also what the C06 theorems use to state which sleeps the retry loop makes.
-/
import Lean.Data.Json
import PypyrModel.Json
import PypyrModel.Backoff

namespace Pypyr.OpBackoff
open Lean (Json)

/-- The first `n` values of `backoff_callable(k), backoff_callable(k+1), …`, threading the callable's
    own state (the deque of `fixed`) and the scripted random numbers. -/
def schedule (bo : BackoffState) (rs : List Num) (k : Nat) : Nat → List Num
  | 0 => []
  | n + 1 =>
    let iv := interval bo k rs
    iv.1 :: schedule iv.2.1 iv.2.2 (k + 1) n

/-- The scripted random numbers still unused after those `n` calls. -/
def rndAfter (bo : BackoffState) (rs : List Num) (k : Nat) : Nat → List Num
  | 0 => rs
  | n + 1 =>
    let iv := interval bo k rs
    rndAfter iv.2.1 iv.2.2 (k + 1) n

/-- The callable's state after those `n` calls. -/
def stateAfter (bo : BackoffState) (rs : List Num) (k : Nat) : Nat → BackoffState
  | 0 => bo
  | n + 1 =>
    let iv := interval bo k rs
    stateAfter iv.2.1 iv.2.2 (k + 1) n

/-- The default `base` of `exponential` (`kwargs.get('base', 2) if kwargs else 2`), the same literal
    `retryLoop` uses when `backoffArgs` gives none. -/
def defaultBase : Num := ⟨2, 0, false⟩

/-- a wire number; booleans and everything else are rejected. -/
def numOfJson (j : Json) : Except String Num := do
  match ← Val.ofJson j with
  | .int i => pure ⟨i, 0, false⟩
  | .flt n k => pure ⟨n, k, true⟩
  | _ => throw s!"not a number: {j.compress}"

def optNumOfJson (j : Json) : Except String (Option Num) :=
  match j with
  | .null => pure none
  | other => do pure (some (← numOfJson other))

def numToJson (x : Num) : Json := x.toVal.toJson

def handle (op : String) (j : Json) : Except String Json := do
  match op with
  | "schedule" =>
    let kindS ← (← j.getObjVal? "kind").getStr?
    let some kind := BackoffKind.ofName? kindS | throw s!"unknown back-off strategy {kindS}"
    let sleepJ ← j.getObjVal? "sleep"
    let (sl, lst) ← match sleepJ with
      | .arr xs => do
        let ns ← xs.toList.mapM numOfJson
        if ns.isEmpty then throw "empty sleep list"
        match kind with
        | .fixed | .jitter => pure (numZero, some ns)
        | _ => throw "list sleep with a strategy that takes a number"
      | other => do pure ((← numOfJson other), (none : Option (List Num)))
    let maxSleep ← optNumOfJson (← j.getObjVal? "sleepMax")
    let jrc ← numOfJson (← j.getObjVal? "jrc")
    let base ← match j.getObjVal? "base" with
      | .ok b => do pure ((← optNumOfJson b).getD defaultBase)
      | .error _ => pure defaultBase
    let n ← jsonNat? (← j.getObjVal? "n")
    let rnd ← (← (← j.getObjVal? "rnd").getArr?).toList.mapM numOfJson
    if kind.isJitter && rnd.length < n then throw "not enough scripted random numbers"
    let bo := mkBackoff kind sl lst maxSleep jrc base
    let out := schedule bo rnd 1 n
    let left := (rndAfter bo rnd 1 n).length
    pure (Json.mkObj [("intervals", Json.arr (out.map numToJson).toArray),
                      ("rndLeft", Json.num (Lean.JsonNumber.fromNat left))])
  | _ => .error s!"unknown op {op}"

end Pypyr.OpBackoff
