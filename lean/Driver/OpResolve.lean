/- Driver ops for the resolution model (`PypyrModel/Resolve.lean`).

   Paths travel as absolute posix strings ("/R/cwd/pipelines"); the file system as the lists of
   files and directories that exist.

   resolve.path  {name, parent: str|null, cwd, builtin, files: [str], dirs: [str], links?, osCwd?: str}
                 → {ok: str} | {err: str}      (`getPipelinePathA`: a relative parent is read against osCwd)
   resolve.args  {pype: {loader?, resolveFromParent?, parent?}, info: {loader, parent, isLoaderCascading,
                  isParentCascading}} → {loader: str|null, parent: str|null}
   resolve.chain {cwd, builtin, files, dirs, links?: [[link, target]…], rootLoader: str|null,
                  custom: [[name, parentCasc, loaderCasc]…], hops: [{name, pype, pyDir?: str|null}…],
                  mods?: [[dir, [module…]]…], stepMods?: [[file, [module…]]…], sysPath0?: [str…]}
                 → {loaded: [{file: str, imports: [[m, dir|null]…]} | {custom: [loader, name, parent|null], imports}…],
                    err: str|null, sysPath: [str…]}   (sysPath = entries appended after sysPath0, in order)
                 `Resolve.runChainR`: names may contain `..`; `links` are symlinks (file or directory; absolute
                 targets), followed by the file-system predicates and by `realpath` like the OS / `Path.resolve()`.
   resolve.chains {…as chain without rootLoader/hops…, runs: [{rootLoader, hops}…]}
                 → {runs: [{loaded, err}…], sysPath}   several root pipelines one after the other in ONE process
   resolve.session {cwd, builtin, files, dirs, noCache: bool,
                    ops: [["req", obj, name, parent|null] | ["fs", {files, dirs}] | ["clear"] | ["noCache", b]
                          | ["pyDir", dir]…]}
                 → {results: [{ok: str} | {err: str}, …each with clean: bool, cold: {ok}|{err},
                              sysPath: [str…] (entries appended so far, normalised, first occurrence only)]}
                 names may contain `..` segments here: the file-system predicate walks them (a `..` needs the
                 directory it leaves to exist) and results are normalised like `Path.resolve()`.
   resolve.name  {name: ANY string, parent: str|null, sub?: str, cwd, builtin, files, dirs, links?} → {ok: str} | {err: str}
                 (`getPipelinePathNR`: `f'{name}.yaml'` read the way pathlib reads it)
   resolve.kinds {name, parent: abs str|null, sub?: str, cwd, builtin, dirs, links?, kinds: [[path, kind]…]} → {ok: str} | {err: str}
                 (`getPipelinePathK` over the kind map: kind ∈ absent|file|dir|linkFile|linkDir|dangling|fifo of the ENTRY at the
                 candidate path as written, default absent; `links` only serve `parent.resolve()` / `.resolve()` of the result)
-/
import Lean.Data.Json
import PypyrModel.Json
import PypyrModel.Resolve

namespace Pypyr.OpResolve
open Lean (Json)
open Pypyr.Resolve

def badSeg (s : String) : Bool := s.isEmpty || s == "." || s == ".."

/-- "/a/b" → ["a","b"]; anything not absolute and normalised is rejected -/
def pathOfStr (s : String) : Except String Path :=
  if s == "/" then pure []
  else match s.splitOn "/" with
    | "" :: rest => if rest.any badSeg then .error s!"path not normalised: {s}" else pure rest
    | _ => .error s!"path not absolute: {s}"

def nameOfStr (s : String) : Except String Name :=
  match s.splitOn "/" with
  | "" :: rest => if rest.isEmpty || rest.any badSeg then .error s!"name outside the domain: {s}" else pure (.abs rest)
  | parts => if parts.any badSeg then .error s!"name outside the domain: {s}" else pure (.rel parts)

def optPath (j : Json) : Except String (Option Path) :=
  match j with
  | .null => pure none
  | .str s => if s.isEmpty then pure none else (pathOfStr s).map some
  | _ => .error "parent must be a string or null"

/-- "/a/../b" → ["a","..","b"]: absolute, no empty or `.` segment -/
def pathOfStrDD (s : String) : Except String Path :=
  if s == "/" then pure []
  else match s.splitOn "/" with
    | "" :: rest => if rest.any (fun x => x.isEmpty || x == ".") then .error s!"path not clean: {s}" else pure rest
    | _ => .error s!"path not absolute: {s}"

/-- a parent / py_dir that may contain `..` (resolved by the model's `realpath`) -/
def optPathDD (j : Json) : Except String (Option Path) :=
  match j with
  | .null => pure none
  | .str s => if s.isEmpty then pure none else (pathOfStrDD s).map some
  | _ => .error "parent must be a string or null"

def strList (j : Json) : Except String (List String) := do
  (← j.getArr?).toList.mapM Json.getStr?

/-- resolve a path component by component like the OS: a component that is a symlink is replaced
    by its (absolute) target, `..` leaves the directory reached so far — which must exist.
    `none`: the OS would fail (`..` out of a directory that is not there). Fuel bounds link chains. -/
def walkL (links : List (Path × Path)) (dirs : List Path) : Nat → Path → Path → Option Path
  | 0, _, _ => none
  | _, acc, [] => some acc
  | n + 1, acc, ".." :: rest =>
    if acc.isEmpty || dirs.contains acc then walkL links dirs n acc.dropLast rest else none
  | n + 1, acc, x :: rest =>
    match links.lookup (acc ++ [x]) with
    | some t => walkL links dirs n [] (t ++ rest)
    | none => walkL links dirs n (acc ++ [x]) rest

/-- `Path.resolve()` (non-strict): as `walkL`, but `..` pops what has been resolved so far without
    asking whether it exists (`posixpath._joinrealpath`) -/
def resolveL (links : List (Path × Path)) : Nat → Path → Path → Path
  | 0, acc, rest => acc ++ rest
  | _, acc, [] => acc
  | n + 1, acc, ".." :: rest => resolveL links n acc.dropLast rest
  | n + 1, acc, x :: rest =>
    match links.lookup (acc ++ [x]) with
    | some t => resolveL links n [] (t ++ rest)
    | none => resolveL links n (acc ++ [x]) rest

def walkFuel : Nat := 400

/-- the file system from the lists of REAL files and directories and the symlinks -/
def fsOfLinks (cwd builtin : Path) (files dirs : List Path) (links : List (Path × Path)) : Fs :=
  { cwd := cwd, builtin := builtin,
    isFile := fun p => match walkL links dirs walkFuel [] p with
      | some q => files.contains q
      | none => false,
    dirExists := fun d => match walkL links dirs walkFuel [] d with
      | some q => q.isEmpty || dirs.contains q
      | none => false,
    realpath := fun p => resolveL links walkFuel [] p }

def linksOfJson (j : Json) : Except String (List (Path × Path)) :=
  match j.getObjVal? "links" with
  | .error _ => pure []
  | .ok l => do
    (← l.getArr?).toList.mapM fun e => do
      match (← e.getArr?).toList with
      | [.str a, .str b] => pure ((← pathOfStr a), (← pathOfStr b))
      | _ => .error "bad link entry"

def fsOfJson (j : Json) : Except String Fs := do
  let cwd ← pathOfStr (← (← j.getObjVal? "cwd").getStr?)
  let builtin ← pathOfStr (← (← j.getObjVal? "builtin").getStr?)
  let files ← (← strList (← j.getObjVal? "files")).mapM pathOfStr
  let dirs ← (← strList (← j.getObjVal? "dirs")).mapM pathOfStr
  let links ← linksOfJson j
  let fs := fsOfLinks cwd builtin files dirs links
  -- `config.cwd = Path.cwd()` and the package directory are real paths
  if fs.realpath cwd != cwd || fs.realpath builtin != builtin then
    .error "out of domain: the cwd / the built-in directory is reached through a symlink"
  pure fs

def pypeOfJson (j : Json) : Except String PypeIn := do
  let loader ← match j.getObjVal? "loader" with
    | .error _ => pure none
    | .ok .null => pure (some none)
    | .ok (.str s) => pure (some (some s))
    | .ok _ => .error "loader must be a string or null"
  let rfp ← match j.getObjVal? "resolveFromParent" with
    | .error _ => pure none
    | .ok v => (Val.ofJson v).map some
  let parent ← match j.getObjVal? "parent" with
    | .error _ => pure none
    | .ok v => (optPathDD v).map some
  pure { loader := loader, resolveFromParent := rfp, parent := parent }

def optPathJson : Option Path → Json
  | none => Json.null
  | some p => Json.str (pathStr p)

def loadedToJson : Loaded → Json
  | .file p => Json.mkObj [("file", Json.str (pathStr p))]
  | .custom l n par _ _ => Json.mkObj [("custom", Json.arr #[Json.str l, Json.str n, optPathJson par])]

def importsToJson (xs : List (String × Option Path)) : Json :=
  Json.arr (xs.map fun (m, d) => Json.arr #[Json.str m, optPathJson d]).toArray


/-! ### `resolve.session`: sequences of look-ups through the warm pipeline cache -/

def badSegDD (s : String) : Bool := s.isEmpty || s == "."

def nameOfStrDD (s : String) : Except String Name :=
  match s.splitOn "/" with
  | "" :: rest => if rest.isEmpty || rest.any badSegDD then .error s!"name outside the domain: {s}" else pure (.abs rest)
  | parts => if parts.any badSegDD then .error s!"name outside the domain: {s}" else pure (.rel parts)

/-- follow `..` segments as the OS does: the directory being left must exist -/
def walk (dirs : List Path) : Path → Path → Option Path
  | acc, [] => some acc
  | acc, ".." :: rest => if dirs.contains acc then walk dirs acc.dropLast rest else none
  | acc, x :: rest => walk dirs (acc ++ [x]) rest

def fsOfLists (cwd builtin : Path) (files dirs : List Path) : Fs :=
  { cwd := cwd, builtin := builtin,
    isFile := fun p => match walk ([] :: dirs) [] p with
      | some q => files.contains q
      | none => false,
    dirExists := fun d => match walk ([] :: dirs) [] d with
      | some q => dirs.contains q
      | none => false }

def filesDirs (j : Json) : Except String (List Path × List Path) := do
  let files ← (← strList (← j.getObjVal? "files")).mapM pathOfStr
  let dirs ← (← strList (← j.getObjVal? "dirs")).mapM pathOfStr
  pure (files, dirs)

def parseTotal (s : String) : Name :=
  match nameOfStrDD s with
  | .ok n => n
  | .error _ => .rel ["?"]

def sopOfJson (cwd builtin : Path) (j : Json) : Except String (SOp × List Path) := do
  match (← j.getArr?).toList with
  | [.str "req", obj, .str name, parent] =>
    let _ ← nameOfStrDD name
    pure (.req { obj := ← jsonNat? obj, nameStr := name, parent := ← optPath parent }, [])
  | [.str "fs", f] =>
    let (files, dirs) ← filesDirs f
    pure (.fs (fsOfLists cwd builtin files dirs), dirs)
  | [.str "clear"] => pure (.clear, [])
  | [.str "noCache", .bool b] => pure (.noCache b, [])
  | [.str "pyDir", .str d] => pure (.pyDir (← pathOfStr d), [])
  | _ => .error "bad session op"

/-- `Path.resolve()` on a symlink-free tree: drop `x/..` -/
def normPath : Path → Path → Path
  | acc, [] => acc
  | acc, ".." :: rest => normPath acc.dropLast rest
  | acc, x :: rest => normPath (acc ++ [x]) rest

def resJson : Except String Path → Json
  | .ok p => Json.mkObj [("ok", Json.str (pathStr (normPath [] p)))]
  | .error e => Json.mkObj [("err", Json.str e)]

def handleSession (j : Json) : Except String Json := do
  let cwd ← pathOfStr (← (← j.getObjVal? "cwd").getStr?)
  let builtin ← pathOfStr (← (← j.getObjVal? "builtin").getStr?)
  let (files, dirs) ← filesDirs j
  let nc ← (← j.getObjVal? "noCache").getBool?
  let opsd ← (← (← j.getObjVal? "ops").getArr?).toList.mapM (sopOfJson cwd builtin)
  let ops := opsd.map (·.1)
  let fs0 := fsOfLists cwd builtin files dirs
  let out := runSess parseTotal fs0 nc false (Sess.init []) ops
  let paths := (runSessPath parseTotal fs0 nc (Sess.init []) ops).map fun x =>
    Json.arr ((x.2.map (normPath [])).eraseDups.map fun p => Json.str (pathStr p)).toArray
  pure (Json.mkObj [("results", Json.arr ((out.zip paths).map fun (x, sp) =>
    (resJson x.1).setObjVal! "clean" (Json.bool x.2.1) |>.setObjVal! "cold" (resJson x.2.2)
      |>.setObjVal! "sysPath" sp).toArray)])

/-! ### `resolve.chain` / `resolve.chains`: `runChainR` -/

def runOfJson (j : Json) : Except String (Option String × List Hop) := do
  let rootLoader ← match ← j.getObjVal? "rootLoader" with
    | .null => pure none
    | .str s => pure (some s)
    | _ => .error "rootLoader must be a string or null"
  let hops ← (← (← j.getObjVal? "hops").getArr?).toList.mapM fun h => do
    let nameStr ← (← h.getObjVal? "name").getStr?
    let pype ← pypeOfJson (← h.getObjVal? "pype")
    let pyDir ← match h.getObjVal? "pyDir" with
      | .error _ => pure none
      | .ok v => optPathDD v
    pure ({ nameStr := nameStr, name := ← nameOfStrDD nameStr, pype := pype, pyDir := pyDir } : Hop)
  pure (rootLoader, hops)

def handleChains (j : Json) (runs : List (Option String × List Hop)) : Except String Json := do
  let fs ← fsOfJson j
  let customs ← (← (← j.getObjVal? "custom").getArr?).toList.mapM fun c => do
    match (← c.getArr?).toList with
    | [.str n, .bool pc, .bool lc] => pure (n, pc, lc)
    | _ => .error "bad custom loader entry"
  let custom := fun l => (customs.find? (·.1 == l)).map (·.2)
  let mods ← match j.getObjVal? "mods" with
    | .error _ => pure []
    | .ok m => (← m.getArr?).toList.mapM fun e => do
      match (← e.getArr?).toList with
      | [.str d, ms] => pure ((← pathOfStr d), (← strList ms))
      | _ => .error "bad mods entry"
  let has : Path → String → Bool := fun d m => match mods.lookup d with
    | some ms => ms.contains m
    | none => false
  -- which modules the steps of a pipeline FILE import before its pype step: [[file, [module…]]…]
  let stepMods ← match j.getObjVal? "stepMods" with
    | .error _ => pure []
    | .ok m => (← m.getArr?).toList.mapM fun e => do
      match (← e.getArr?).toList with
      | [.str f, ms] => pure ((← pathOfStr f), (← strList ms))
      | _ => .error "bad stepMods entry"
  let importsOf : Loaded → List String
    | .file p => (stepMods.lookup p).getD []
    | _ => []
  let sp0 ← match j.getObjVal? "sysPath0" with
    | .error _ => pure []
    | .ok v => (← strList v).mapM pathOfStr
  let st0 : Proc := { load := { fileCache := [], sysPath := sp0, known := [] } }
  let mut st := st0
  let mut out : Array Json := #[]
  for (rootLoader, hops) in runs do
    let (loaded, err, st') := runChainR fs custom has importsOf st none rootLoader hops
    -- reject chains that name a loader nobody declared
    match err with
    | some e => if e.startsWith "no such loader " then throw e else pure ()
    | none => pure ()
    st := st'
    out := out.push (Json.mkObj [
      ("loaded", Json.arr (loaded.map fun (ld, imps) => (loadedToJson ld).setObjVal! "imports" (importsToJson imps)).toArray),
      ("err", match err with | some e => Json.str e | none => Json.null)])
  pure (Json.mkObj [
    ("runs", Json.arr out),
    ("sysPath", Json.arr ((st.load.sysPath.drop sp0.length).map fun p => Json.str (pathStr p)).toArray)])

def handle (op : String) (j : Json) : Except String Json := do
  match op with
  | "session" => handleSession j
  | "path" =>
    let fs ← fsOfJson j
    let name ← nameOfStrDD (← (← j.getObjVal? "name").getStr?)
    -- `osCwd` (optional): the OS working directory at the call; a relative parent needs it
    let osCwd ← match j.getObjVal? "osCwd" with
      | .error _ => pure fs.cwd
      | .ok v => pathOfStr (← v.getStr?)
    let parent ← match ← j.getObjVal? "parent" with
      | .null => pure none
      | .str s =>
        if s.isEmpty then pure none
        else if s.startsWith "/" then (pathOfStrDD s).map (fun p => some (PathArg.abs p))
        else
          let parts := s.splitOn "/"
          if parts.any (fun x => x.isEmpty || x == ".") then .error s!"parent not clean: {s}"
          else pure (some (PathArg.rel parts))
      | _ => .error "parent must be a string or null"
    match getPipelinePathA fs osCwd name parent with
    | .ok p => pure (Json.mkObj [("ok", Json.str (pathStr p))])
    | .error e => pure (Json.mkObj [("err", Json.str e)])
  | "args" =>
    let pype ← pypeOfJson (← j.getObjVal? "pype")
    let ij ← j.getObjVal? "info"
    let info : Info := {
      loader := ← (← ij.getObjVal? "loader").getStr?
      parent := ← optPath (← ij.getObjVal? "parent")
      isLoaderCascading := ← (← ij.getObjVal? "isLoaderCascading").getBool?
      isParentCascading := ← (← ij.getObjVal? "isParentCascading").getBool? }
    pure (Json.mkObj [
      ("loader", match childLoader pype info with | some s => Json.str s | none => Json.null),
      ("parent", optPathJson (childParent pype info))])
  | "chain" =>
    let r ← handleChains j [← runOfJson j]
    match r.getObjVal? "runs" with
    | .ok (.arr #[one]) => pure (one.setObjVal! "sysPath" (r.getObjValD "sysPath"))
    | _ => .error "internal: chain"
  | "chains" =>
    let runs ← (← (← j.getObjVal? "runs").getArr?).toList.mapM runOfJson
    handleChains j runs
  | "name" =>
    -- {name: ANY string, parent: str|null, sub?: str, cwd, builtin, files, dirs, links?} → {ok: str} | {err: str}
    -- `Resolve.getPipelinePathNR`: `.yaml` appended to the name as written (dots, spaces, unicode, `.yaml` already there,
    -- empty / `.` / `..` segments, trailing slash); the files of `files` may have any name
    let fs ← fsOfJson j
    let name ← (← j.getObjVal? "name").getStr?
    if name.startsWith "//" then throw s!"name outside the domain (pathlib keeps two leading slashes): {name}"
    let sub ← match j.getObjVal? "sub" with
      | .error _ => pure ["pipelines"]
      | .ok v => do
        let parts := (← v.getStr?).splitOn "/"
        if parts.any badSeg then throw "sub-directory outside the domain" else pure parts
    let parent ← optPathDD (← j.getObjVal? "parent")
    match getPipelinePathNR fs sub name parent with
    | .ok p => pure (Json.mkObj [("ok", Json.str (pathStr p))])
    | .error e => pure (Json.mkObj [("err", Json.str e)])
  | "subdir" =>
    -- {cwd, builtin, files, dirs, ops: [["config", "pipes"] | ["import"] | ["lookup", name] | ["child", name]…]}
    -- → [{ok}|{err}] for every lookup / child op (`Resolve.runSub`: where `config.pipelines_subdir` is read)
    let fs ← fsOfJson j
    let subOf (t : String) : Except String (List String) :=
      let parts := t.splitOn "/"
      if parts.any badSeg then .error s!"sub-directory outside the domain: {t}" else pure parts
    let ops ← (← (← j.getObjVal? "ops").getArr?).toList.mapM fun e => do
      match (← e.getArr?).toList with
      | [.str "config", .str t] => pure (SubOp.setConfig (← subOf t))
      | [.str "import"] => pure SubOp.importLoader
      | [.str "lookup", .str n] => pure (SubOp.lookup (← nameOfStr n))
      | [.str "child", .str n] => pure (SubOp.lookupChild (← nameOfStr n))
      | _ => .error "bad subdir op"
    pure (Json.arr ((runSub fs {} ops).map fun r => match r with
      | .ok p => Json.mkObj [("ok", Json.str (pathStr p))]
      | .error e => Json.mkObj [("err", Json.str e)]).toArray)
  | "kinds" =>
    let cwd ← pathOfStr (← (← j.getObjVal? "cwd").getStr?)
    let builtin ← pathOfStr (← (← j.getObjVal? "builtin").getStr?)
    let dirs ← (← strList (← j.getObjVal? "dirs")).mapM pathOfStr
    let links ← linksOfJson j
    let fs := fsOfLinks cwd builtin [] dirs links
    let kindOf (t : String) : Except String FKind :=
      match t with
      | "absent" => pure .absent | "file" => pure .file | "dir" => pure .dir | "linkFile" => pure .linkFile
      | "linkDir" => pure .linkDir | "dangling" => pure .dangling | "fifo" => pure .fifo
      | _ => .error s!"unknown kind {t}"
    let kinds ← (← (← j.getObjVal? "kinds").getArr?).toList.mapM fun e => do
      match (← e.getArr?).toList with
      | [.str a, .str k] => pure ((← pathOfStr a), (← kindOf k))
      | _ => .error "bad kinds entry"
    let kind : Path → FKind := fun p => (kinds.lookup p).getD .absent
    let name ← nameOfStr (← (← j.getObjVal? "name").getStr?)
    let sub ← match j.getObjVal? "sub" with
      | .error _ => pure ["pipelines"]
      | .ok v => do
        let parts := (← v.getStr?).splitOn "/"
        if parts.any badSeg then throw "sub-directory outside the domain" else pure parts
    let parent ← optPath (← j.getObjVal? "parent")
    match getPipelinePathK fs kind sub name (parent.map fs.realpath) with
    | .ok p => pure (Json.mkObj [("ok", Json.str (pathStr (fs.realpath p)))])
    | .error e => pure (Json.mkObj [("err", Json.str e)])
  | _ => .error s!"unknown op {op}"

end Pypyr.OpResolve
