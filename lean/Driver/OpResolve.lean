/- Driver ops for the resolution model (`PypyrModel/Resolve.lean`).

   Paths travel as absolute posix strings ("/R/cwd/pipelines"); the file system as the lists of
   files and directories that exist.

   resolve.path  {name, parent: str|null, cwd, builtin, files: [str], dirs: [str]}
                 → {ok: str} | {err: str}
   resolve.args  {pype: {loader?, resolveFromParent?, parent?}, info: {loader, parent, isLoaderCascading,
                  isParentCascading}} → {loader: str|null, parent: str|null}
   resolve.chain {cwd, builtin, files, dirs, rootLoader: str|null, custom: [[name, parentCasc, loaderCasc]…],
                  hops: [{name, pype}…]}
                 → {loaded: [{file: str} | {custom: [loader, name, parent|null]}…], err: str|null,
                    sysPath: [str…]}   (sysPath = entries appended, in order)
   resolve.session {cwd, builtin, files, dirs, noCache: bool,
                    ops: [["req", obj, name, parent|null] | ["fs", {files, dirs}] | ["clear"] | ["noCache", b]
                          | ["pyDir", dir]…]}
                 → {results: [{ok: str} | {err: str}, …each with clean: bool, cold: {ok}|{err},
                              sysPath: [str…] (entries appended so far, normalised, first occurrence only)]}
                 names may contain `..` segments here: the file-system predicate walks them (a `..` needs the
                 directory it leaves to exist) and results are normalised like `Path.resolve()`.
-/
import Lean.Data.Json
import PypyrModel.Json
import PypyrModel.Resolve

namespace Pypyr.OpResolve
open Lean (Json)
open Pypyr.Resolve

def badSeg (s : String) : Bool := s.isEmpty || s == "." || s == ".."

/-- "/a/b" → ["a","b"]; anything not absolute and normalised is rejected -/
def pathOfStr (s : String) : Except String Path :=
  if s == "/" then pure []
  else match s.splitOn "/" with
    | "" :: rest => if rest.any badSeg then .error s!"path not normalised: {s}" else pure rest
    | _ => .error s!"path not absolute: {s}"

def nameOfStr (s : String) : Except String Name :=
  match s.splitOn "/" with
  | "" :: rest => if rest.isEmpty || rest.any badSeg then .error s!"name outside the domain: {s}" else pure (.abs rest)
  | parts => if parts.any badSeg then .error s!"name outside the domain: {s}" else pure (.rel parts)

def optPath (j : Json) : Except String (Option Path) :=
  match j with
  | .null => pure none
  | .str s => if s.isEmpty then pure none else (pathOfStr s).map some
  | _ => .error "parent must be a string or null"

def strList (j : Json) : Except String (List String) := do
  (← j.getArr?).toList.mapM Json.getStr?

def fsOfJson (j : Json) : Except String Fs := do
  let cwd ← pathOfStr (← (← j.getObjVal? "cwd").getStr?)
  let builtin ← pathOfStr (← (← j.getObjVal? "builtin").getStr?)
  let files ← (← strList (← j.getObjVal? "files")).mapM pathOfStr
  let dirs ← (← strList (← j.getObjVal? "dirs")).mapM pathOfStr
  pure { cwd := cwd, builtin := builtin, isFile := fun p => files.contains p,
         dirExists := fun d => dirs.contains d }

def pypeOfJson (j : Json) : Except String PypeIn := do
  let loader ← match j.getObjVal? "loader" with
    | .error _ => pure none
    | .ok .null => pure (some none)
    | .ok (.str s) => pure (some (some s))
    | .ok _ => .error "loader must be a string or null"
  let rfp ← match j.getObjVal? "resolveFromParent" with
    | .error _ => pure none
    | .ok v => (Val.ofJson v).map some
  let parent ← match j.getObjVal? "parent" with
    | .error _ => pure none
    | .ok v => (optPath v).map some
  pure { loader := loader, resolveFromParent := rfp, parent := parent }

def optPathJson : Option Path → Json
  | none => Json.null
  | some p => Json.str (pathStr p)

def loadedToJson : Loaded → Json
  | .file p => Json.mkObj [("file", Json.str (pathStr p))]
  | .custom l n par _ _ => Json.mkObj [("custom", Json.arr #[Json.str l, Json.str n, optPathJson par])]


/-! ### `resolve.session`: sequences of look-ups through the warm pipeline cache -/

def badSegDD (s : String) : Bool := s.isEmpty || s == "."

def nameOfStrDD (s : String) : Except String Name :=
  match s.splitOn "/" with
  | "" :: rest => if rest.isEmpty || rest.any badSegDD then .error s!"name outside the domain: {s}" else pure (.abs rest)
  | parts => if parts.any badSegDD then .error s!"name outside the domain: {s}" else pure (.rel parts)

/-- follow `..` segments as the OS does: the directory being left must exist -/
def walk (dirs : List Path) : Path → Path → Option Path
  | acc, [] => some acc
  | acc, ".." :: rest => if dirs.contains acc then walk dirs acc.dropLast rest else none
  | acc, x :: rest => walk dirs (acc ++ [x]) rest

def fsOfLists (cwd builtin : Path) (files dirs : List Path) : Fs :=
  { cwd := cwd, builtin := builtin,
    isFile := fun p => match walk ([] :: dirs) [] p with
      | some q => files.contains q
      | none => false,
    dirExists := fun d => match walk ([] :: dirs) [] d with
      | some q => dirs.contains q
      | none => false }

def filesDirs (j : Json) : Except String (List Path × List Path) := do
  let files ← (← strList (← j.getObjVal? "files")).mapM pathOfStr
  let dirs ← (← strList (← j.getObjVal? "dirs")).mapM pathOfStr
  pure (files, dirs)

def parseTotal (s : String) : Name :=
  match nameOfStrDD s with
  | .ok n => n
  | .error _ => .rel ["?"]

def sopOfJson (cwd builtin : Path) (j : Json) : Except String (SOp × List Path) := do
  match (← j.getArr?).toList with
  | [.str "req", obj, .str name, parent] =>
    let _ ← nameOfStrDD name
    pure (.req { obj := ← jsonNat? obj, nameStr := name, parent := ← optPath parent }, [])
  | [.str "fs", f] =>
    let (files, dirs) ← filesDirs f
    pure (.fs (fsOfLists cwd builtin files dirs), dirs)
  | [.str "clear"] => pure (.clear, [])
  | [.str "noCache", .bool b] => pure (.noCache b, [])
  | [.str "pyDir", .str d] => pure (.pyDir (← pathOfStr d), [])
  | _ => .error "bad session op"

/-- `Path.resolve()` on a symlink-free tree: drop `x/..` -/
def normPath : Path → Path → Path
  | acc, [] => acc
  | acc, ".." :: rest => normPath acc.dropLast rest
  | acc, x :: rest => normPath (acc ++ [x]) rest

def resJson : Except String Path → Json
  | .ok p => Json.mkObj [("ok", Json.str (pathStr (normPath [] p)))]
  | .error e => Json.mkObj [("err", Json.str e)]

def handleSession (j : Json) : Except String Json := do
  let cwd ← pathOfStr (← (← j.getObjVal? "cwd").getStr?)
  let builtin ← pathOfStr (← (← j.getObjVal? "builtin").getStr?)
  let (files, dirs) ← filesDirs j
  let nc ← (← j.getObjVal? "noCache").getBool?
  let opsd ← (← (← j.getObjVal? "ops").getArr?).toList.mapM (sopOfJson cwd builtin)
  let ops := opsd.map (·.1)
  let fs0 := fsOfLists cwd builtin files dirs
  let out := runSess parseTotal fs0 nc false (Sess.init []) ops
  let paths := (runSessPath parseTotal fs0 nc (Sess.init []) ops).map fun x =>
    Json.arr ((x.2.map (normPath [])).eraseDups.map fun p => Json.str (pathStr p)).toArray
  pure (Json.mkObj [("results", Json.arr ((out.zip paths).map fun (x, sp) =>
    (resJson x.1).setObjVal! "clean" (Json.bool x.2.1) |>.setObjVal! "cold" (resJson x.2.2)
      |>.setObjVal! "sysPath" sp).toArray)])

def handle (op : String) (j : Json) : Except String Json := do
  match op with
  | "session" => handleSession j
  | "path" =>
    let fs ← fsOfJson j
    let name ← nameOfStr (← (← j.getObjVal? "name").getStr?)
    let parent ← optPath (← j.getObjVal? "parent")
    match getPipelinePath fs name parent with
    | .ok p => pure (Json.mkObj [("ok", Json.str (pathStr p))])
    | .error e => pure (Json.mkObj [("err", Json.str e)])
  | "args" =>
    let pype ← pypeOfJson (← j.getObjVal? "pype")
    let ij ← j.getObjVal? "info"
    let info : Info := {
      loader := ← (← ij.getObjVal? "loader").getStr?
      parent := ← optPath (← ij.getObjVal? "parent")
      isLoaderCascading := ← (← ij.getObjVal? "isLoaderCascading").getBool?
      isParentCascading := ← (← ij.getObjVal? "isParentCascading").getBool? }
    pure (Json.mkObj [
      ("loader", match childLoader pype info with | some s => Json.str s | none => Json.null),
      ("parent", optPathJson (childParent pype info))])
  | "chain" =>
    let fs ← fsOfJson j
    let rootLoader ← match ← j.getObjVal? "rootLoader" with
      | .null => pure none
      | .str s => pure (some s)
      | _ => .error "rootLoader must be a string or null"
    let customs ← (← (← j.getObjVal? "custom").getArr?).toList.mapM fun c => do
      match (← c.getArr?).toList with
      | [.str n, .bool pc, .bool lc] => pure (n, pc, lc)
      | _ => .error "bad custom loader entry"
    let hops ← (← (← j.getObjVal? "hops").getArr?).toList.mapM fun h => do
      let nameStr ← (← h.getObjVal? "name").getStr?
      let pype ← pypeOfJson (← h.getObjVal? "pype")
      pure ({ nameStr := nameStr, name := ← nameOfStr nameStr, pype := pype } : Hop)
    let custom := fun l => (customs.find? (·.1 == l)).map (·.2)
    -- reject chains that name a loader nobody declared
    let st0 : LoadState := { fileCache := [], sysPath := [], known := [] }
    let (loaded, err, st) := runChain fs custom st0 none rootLoader hops
    match err with
    | some e => if e.startsWith "no such loader " then .error e else pure ()
    | none => pure ()
    pure (Json.mkObj [
      ("loaded", Json.arr (loaded.map loadedToJson).toArray),
      ("err", match err with | some e => Json.str e | none => Json.null),
      ("sysPath", Json.arr (st.sysPath.map fun p => Json.str (pathStr p)).toArray)])
  | _ => .error s!"unknown op {op}"

end Pypyr.OpResolve
