/- Driver ops for the Config model (C20): `config.init`, `config.apply`. -/
import Lean.Data.Json
import PypyrModel.Json
import PypyrModel.Config

namespace Pypyr.OpConfig
open Lean (Json)
open Pypyr.Config

def strsJ (xs : List String) : Json := Json.arr (xs.map Json.str).toArray

def payloadOf (j : Json) : Except String Payload := do
  match ← (← j.getObjVal? "kind").getStr? with
  | "none" => pure .none
  | "nonmap" => pure (.nonMapping (← (← j.getObjVal? "truthy").getBool?))
  | "parse" => pure (.parseError (← (← j.getObjVal? "exc").getStr?))
  | "toolnottable" => pure .toolNotTable
  | "unreadable" => pure (.unreadable (← (← j.getObjVal? "what").getStr?))
  | "map" =>
    let kvs ← (← (← j.getObjVal? "kvs").getArr?).toList.mapM fun p => do
      match p with
      | .arr #[k, v] => pure ((← k.getStr?), (← Val.ofJson v))
      | _ => throw "bad mapping pair"
    pure (.mapping kvs)
  | k => throw s!"unknown payload kind {k}"

def filesOf (j : Json) : Except String Files := do
  (← j.getArr?).toList.mapM fun p => do
    match p with
    | .arr #[path, pl] => pure ((← path.getStr?), (← payloadOf pl))
    | _ => throw "bad file entry"

def envOf (j : Json) : Except String Env := do
  let vars ← (← (← j.getObjVal? "vars").getArr?).toList.mapM fun p => do
    match p with
    | .arr #[k, v] => pure ((← k.getStr?), (← v.getStr?))
    | _ => throw "bad env entry"
  let home ← (← j.getObjVal? "home").getStr?
  let platform ← match ← (← j.getObjVal? "platform").getStr? with
    | "posix" => pure Platform.posix
    | "macos" => pure Platform.macos
    | "windows" => pure Platform.windows
    | p => throw s!"platform {p} is not modelled"
  let androidDir ← match j.getObjVal? "androidDir" with
    | .error _ => pure none
    | .ok .null => pure none
    | .ok (.str d) => pure (some d)
    | .ok _ => throw "androidDir must be a string or null"
  pure { vars := vars, home := home, platform := platform, androidDir := androidDir }

def errJ : CfgErr → Json
  | e@(.notFound p) => Json.mkObj [("name", Json.str e.name), ("kind", "notFound"), ("path", Json.str p)]
  | e@(.notMapping p) => Json.mkObj [("name", Json.str e.name), ("kind", "notMapping"), ("path", Json.str p)]
  | e@(.unknownProps ks) => Json.mkObj [("name", Json.str e.name), ("kind", "unknownProps"), ("keys", strsJ ks)]
  | e@(.dictUpdate d _) => Json.mkObj [("name", Json.str e.name), ("kind", "dictUpdate"), ("prop", Json.str d)]
  | e@(.parse p _) => Json.mkObj [("name", Json.str e.name), ("kind", "parse"), ("path", Json.str p)]
  | e@(.toolNotTable) => Json.mkObj [("name", Json.str e.name), ("kind", "toolNotTable")]
  | e@(.androidDir) => Json.mkObj [("name", Json.str e.name), ("kind", "androidDir")]

def dictJ (d : Dict) : Json := Json.arr (d.map fun (k, v) => Json.arr #[k.toJson, v.toJson]).toArray

def stateJ (st : ConfigState) : Json :=
  Json.mkObj [
    ("scalars", Json.arr (st.scalars.map fun (k, v) => Json.arr #[Json.str k, v.toJson]).toArray),
    ("dicts", Json.arr (st.dicts.map fun (k, d) => Json.arr #[Json.str k, dictJ d]).toArray),
    ("loaded", strsJ st.loaded),
    ("skip_init", Json.bool st.skipInit)]

def outcomeJ (o : Outcome) : Json :=
  Json.mkObj [("state", stateJ o.1), ("err", match o.2 with | some e => errJ e | none => Json.null)]

/-- Everything the model is silent about is rejected here, never defaulted. -/
def checkEnv (e : Env) : Except String Unit := do
  for (k, v) in e.vars do
    unless asciiStr k && asciiStr v do throw s!"out of domain: non-ASCII environment value for {k}"
  unless pathClean e.home do throw "out of domain: home is not a clean path"
  let xh := e.getD "XDG_CONFIG_HOME" ""
  unless isBlank xh || pathClean xh do throw "out of domain: XDG_CONFIG_HOME is not a clean path"
  for d in splitChar (pathSep e.platform) (e.getD "XDG_CONFIG_DIRS" "") do
    unless isBlank d || pathClean d do throw s!"out of domain: XDG_CONFIG_DIRS entry {d} is not a clean path"
  unless pathClean (commonBase e) do throw "out of domain: ALLUSERSPROFILE is not a clean path"
  match e.androidDir with
  | some d => unless pathClean d do throw "out of domain: androidDir is not a clean path"
  | none => pure ()
  match e.globalPath? with
  | some g => unless pathClean g do throw "out of domain: PYPYR_CONFIG_GLOBAL is not a clean path"
  | none => pure ()
  let loc := e.getD "PYPYR_CONFIG_LOCAL" "pypyr-config.yaml"
  unless loc == "" || pathClean loc do throw "out of domain: PYPYR_CONFIG_LOCAL is not a clean path"
  let looks := lookOrder e
  for l in looks do
    for l' in looks do
      if l.path == l'.path && l.loader != l'.loader then
        throw s!"out of domain: {l.path} is read both as yaml and as pyproject.toml"

def checkDomain (e : Env) (fs : Files) : Except String Unit := do
  checkEnv e
  unless decide (fs.map (·.1)).Nodup do throw "duplicate path in files"
  for (p, pl) in fs do
    unless payloadInDomain pl do throw s!"out of domain: payload of {p}"
    if pl == .toolNotTable && p != "pyproject.toml" then throw s!"out of domain: toolNotTable for the yaml file {p}"

/-- ops: `init` {env, files} → outcome of `Config(); init()`, the look-up order and the
    `handle_path` calls actually made; `apply` {env, path, payload, prefix?} → outcome of one
    `handle_path` on the defaults (`prefix: true` = the rule before the F8 repair). -/
def handle (op : String) (j : Json) : Except String Json := do
  match op with
  | "init" =>
    let e ← envOf (← j.getObjVal? "env")
    let fs ← filesOf (← j.getObjVal? "files")
    checkDomain e fs
    let o := initSt e fs
    let looks := initOrder e
    -- the other iteration order of `keys & dict_props` (another $PYTHONHASHSEED)
    let oAlt := initOnOrd true (defaults e) e fs
    pure (Json.mkObj [
      ("state", stateJ o.1),
      ("err", match o.2 with | some err => errJ err | none => Json.null),
      ("alt", outcomeJ oAlt),
      ("order", Json.arr (looks.map fun l => Json.arr #[Json.str l.path,
          Json.str (match l.loader with | .yaml => "yaml" | .pyproject => "pyproject"),
          Json.bool l.mustExist]).toArray),
      ("consulted", strsJ (consulted fs (defaults e) looks))])
  | "session" =>
    -- {home, platform, files, ops: [{op: "new"|"init", obj, vars}]}: a history of one process
    let home ← (← j.getObjVal? "home").getStr?
    let platform ← j.getObjVal? "platform"
    let fs ← filesOf (← j.getObjVal? "files")
    checkDomain { vars := [], home := home } fs
    let ops ← (← (← j.getObjVal? "ops").getArr?).toList.mapM fun o => do
      let e ← envOf (Json.mkObj [("vars", ← o.getObjVal? "vars"), ("home", Json.str home), ("platform", platform)])
      checkEnv e
      let obj ← (← o.getObjVal? "obj").getNat?
      match ← (← o.getObjVal? "op").getStr? with
      | "new" => pure (Op.construct obj e)
      | "init" => pure (Op.init obj e)
      | k => throw s!"unknown session op {k}"
    let obs := runOps fs [] ops
    for o in obs do
      if o.state.isNone then throw s!"out of domain: init on object {o.obj} that was never constructed"
    let looksOf : Op → List Look
      | .construct _ _ => []
      | .init _ e => initOrder e
    pure (Json.arr ((obs.zip ops).map fun (o, op) => Json.mkObj [
      ("obj", Json.num o.obj),
      ("state", match o.state with | some st => stateJ st | none => Json.null),
      ("err", match o.err with | some err => errJ err | none => Json.null),
      ("order", Json.arr ((looksOf op).map fun l => Json.arr #[Json.str l.path,
          Json.str (match l.loader with | .yaml => "yaml" | .pyproject => "pyproject"),
          Json.bool l.mustExist]).toArray),
      ("consulted", strsJ o.consulted)]).toArray)
  | "apply" =>
    let e ← envOf (← j.getObjVal? "env")
    let path ← (← j.getObjVal? "path").getStr?
    let pl ← payloadOf (← j.getObjVal? "payload")
    unless payloadInDomain pl do throw "out of domain: payload"
    let pre := match j.getObjVal? "prefix" with | .ok (.bool true) => true | _ => false
    let rev := match j.getObjVal? "rev" with | .ok (.bool true) => true | _ => false
    pure (outcomeJ (if pre then applyFileStPreFix (defaults e) path pl else applyFileStOrd rev (defaults e) path pl))
  | _ => .error s!"unknown op {op}"

end Pypyr.OpConfig
