/-
  pmdriver: line protocol. One JSON request per line on stdin
  `{"op": "<area>.<op>", "id": n, …}`; one JSON response per line on stdout
  `{"id": n, "obs": …}` or `{"id": n, "reject": "<reason>"}`.
  The driver rejects what it cannot interpret; it never defaults.
-/
import Lean.Data.Json
import Driver.OpFmt
import Driver.OpFormat
import Driver.OpMerge
import Driver.OpFlow
import Driver.OpBackoff
import Driver.OpCache
import Driver.OpPyNs
import Driver.OpFsRewrite
import Driver.OpCodec
import Driver.OpCmd
import Driver.OpCli
import Driver.OpResolve
import Driver.OpConfig
import Driver.OpHeap

open Lean (Json)
open Pypyr

def dispatch (area op : String) (j : Json) : Except String Json :=
  match area with
  | "fmt" => OpFmt.handle op j
  | "format" => OpFormat.handle op j
  | "merge" => OpMerge.handle op j
  | "flow" => OpFlow.handle op j
  | "backoff" => OpBackoff.handle op j
  | "cache" => OpCache.handle op j
  | "pyns" => OpPyNs.handle op j
  | "fsrewrite" => OpFsRewrite.handle op j
  | "codec" => OpCodec.handle op j
  | "cmd" => OpCmd.handle op j
  | "cli" => OpCli.handle op j
  | "resolve" => OpResolve.handle op j
  | "config" => OpConfig.handle op j
  | "heap" => OpHeap.handle op j
  | _ => .error s!"unknown area {area}"

def handleLine (line : String) : String :=
  match Json.parse line with
  | .error e => (Json.mkObj [("id", Json.null), ("reject", Json.str ("bad json: " ++ e))]).compress
  | .ok j =>
    let id := (j.getObjVal? "id").toOption.getD Json.null
    match j.getObjVal? "op" >>= Json.getStr? with
    | .error e => (Json.mkObj [("id", id), ("reject", Json.str ("no op: " ++ e))]).compress
    | .ok full =>
      let (area, op) := match full.splitOn "." with
        | [a] => (a, "")
        | a :: rest => (a, ".".intercalate rest)
        | [] => ("", "")
      match dispatch area op j with
      | .ok obs => (Json.mkObj [("id", id), ("obs", obs)]).compress
      | .error e => (Json.mkObj [("id", id), ("reject", Json.str e)]).compress

partial def loop (hin hout : IO.FS.Stream) : IO Unit := do
  let line ← hin.getLine
  if line.isEmpty then return ()
  let t := line.trimAscii.toString
  if !t.isEmpty then
    hout.putStrLn (handleLine t)
    hout.flush
  loop hin hout

def main : IO Unit := do
  loop (← IO.getStdin) (← IO.getStdout)
