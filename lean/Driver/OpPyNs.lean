/- Driver ops for the PyNs model (`PypyrModel/PyNs.lean`, property C14).

   pyns.importBind {world: {mods: [Path…], attrs: [[Path, name, Obj]…]}, sources: [[IStmt…]…]}
       the pyimport SOURCE LANGUAGE (PypyrModel/PyImportSrc.lean): `sources` = the pyImport sources of the
       pyimport steps of one session, in order, each already parsed into statements
       Path  = [component…] (non-empty strings without '.')       Obj = {"mod": Path} | {"attr": [Path, name]}
       IStmt = {"imp": [[Path, asname|null]…]} | {"from": [level, Path, [[name, asname|null]…]]} | {"other": true}
       answer: {"steps": [{"res": {"ok": [[name, Obj]…]} | {"err": "ModuleNotFoundError"|"TypeError"},
                           "globals": [[name, Obj]…]}…]}
               res = what get_namespace(source) returns (dict items in order) / raises; globals = the
               Context's import namespace after the step

   pyns.session {ctx: [[k, V]…], imps: [[k, V]…], hidden: [[k, V]…], heap: [cell…], bi: [name…],
                 ops: [op…], old: bool, child: bool, fuel: n}
       old   = get_eval_string before 62901c4; child = get_eval_string of 62901c4..81f45d6^ (both
               historical; default: the code as it is now)
       V    = {"tok": [org, name]} | n (constant) | null | {"ref": r}      org = ctx|imp|mod|bi|special
       cell = {"l": [V…]} | {"t": [V…]}
       op   = {"pyimport": [[alias, V]…]} | {"eval": Expr} | {"exec": [Stmt…]}
            | {"evalset": [k, Expr]}     pypyr.steps.set with set: {k: !py Expr} (key `set` popped first)
            | {"foreach": Expr}          Step.foreach_loop over foreach: !py Expr with a step that only
                                         looks; res = {"ok": {"items": [D…]}}
            | {"ctxset": [[k, V]…]}      context.update(…)            (steps set/contextsetf/default…)
            | {"ctxdel": [k…]}           del context[k] where present (contextclear)
            | {"clearall": true}         contextclearall (context and pyimport namespace wiped)
            | {"rehydrate": kind}        pickle / deepcopy / copy round trip of the Context object,
                                         the session goes on with the rehydrated object
       Expr = {"n": x} | {"c": n} | {"w": [x, Expr]} | {"t": [Expr…]} | {"lam": [[p…], Expr]}
            | {"call": [Expr, [Expr…]]} | {"app": [Expr, Expr]}
            | {"gen": {"elt": Expr, "cl": [[target, Expr, [Expr…]]…]}}     ( … for … ) as a value
            | {"drain": Expr}                                               [*Expr]
            | {"si": [Expr, n, Expr]}                                       Expr.__setitem__(n, Expr)
            | {"ns": [method, key, Expr]}     globals().method('key', Expr); method = pop1 | pop2 | popitem
                                              | clear | setdefault | update | setitem | delitem | ior
                                              (an extra "via" field — how the harness renders the
                                              receiver — is ignored)
            | {"comp": {"gen": bool, "elt": Expr, "cl": [[target, Expr, [Expr…]]…]}}
       Stmt = {"as": [x, Expr]} | {"aug": [x, Expr]} | {"del": x} | {"imp": [x, V]} | {"ex": Expr}
            | {"def": {"f": f, "ps": [p…], "gl": [g…], "body": [[x, Expr]…], "ret": Expr}}
            | {"cls": [c, [[x, Expr]…]]} | {"save": [[name…], [[k, Expr]…]]}
            | {"sis": [Expr, n, Expr]}                                      Expr[n] = Expr
     → {steps: [{res: {"ok": D} | {"err": name}, ctx: [[k, D]…], imps: [[k, D]…], hidden: [[k, D]…]}…],
        stopped: bool}
       D = {"tok": [org, name]} | n | null | {"t": [D…]} | {"l": id, "xs": [D…]} | {"fn": id} | {"gen": id}
         | {"cls": id, "attrs": [[k, D]…]} | {"seen": id}
       Mutable objects are numbered by first appearance in the traversal res, ctx, imps, hidden of a
       step. The session stops after a step that ended OutOfFuel / OutOfDomain (`stopped`): the model
       has no opinion about what follows. Ill-formed programs (what CPython's compiler refuses) are
       rejected.
-/
import Lean.Data.Json
import PypyrModel.Json
import PypyrModel.PyNs
import PypyrModel.PyImportSrc

namespace Pypyr.OpPyNs
open Lean (Json)
open Pypyr.PyNs

def orgOfStr (s : String) : Except String Org :=
  match s with
  | "ctx" => pure .ctx | "imp" => pure .imp | "mod" => pure .mod | "bi" => pure .bi
  | "special" => pure .special
  | _ => .error s!"bad org {s}"

def Org.str : Org → String
  | .ctx => "ctx" | .imp => "imp" | .mod => "mod" | .bi => "bi" | .special => "special"

def vOfJson (j : Json) : Except String V :=
  match j with
  | .null => pure .none
  | .num _ => do pure (.cst (← jsonNat? j))
  | _ => do
    if let .ok t := j.getObjVal? "tok" then
      match t with
      | .arr #[o, n] => return .tok (← orgOfStr (← o.getStr?)) (← n.getStr?)
      | _ => throw "bad tok"
    if let .ok r := j.getObjVal? "ref" then
      return .ref (← jsonNat? r)
    throw s!"bad value {j.compress}"

def arrOf (j : Json) : Except String (List Json) := do pure (← j.getArr?).toList

def strList (j : Json) : Except String (List String) := do (← arrOf j).mapM (·.getStr?)

def envOfJson (j : Json) : Except String Env := do
  (← arrOf j).mapM fun p => do
    match p with
    | .arr #[k, v] => pure ((← k.getStr?), (← vOfJson v))
    | _ => throw "bad binding"

def cellOfJson (j : Json) : Except String Cell := do
  if let .ok xs := j.getObjVal? "l" then
    return .list (← (← arrOf xs).mapM vOfJson)
  if let .ok xs := j.getObjVal? "t" then
    return .tuple (← (← arrOf xs).mapM vOfJson)
  throw s!"bad cell {j.compress}"

partial def exprOfJson (j : Json) : Except String Expr := do
  if let .ok n := j.getObjVal? "n" then
    return .name (← n.getStr?)
  if let .ok c := j.getObjVal? "c" then
    return .const (← jsonNat? c)
  if let .ok w := j.getObjVal? "w" then
    match w with
    | .arr #[x, e] => return .walrus (← x.getStr?) (← exprOfJson e)
    | _ => throw "bad walrus"
  if let .ok t := j.getObjVal? "t" then
    return .tuple (← (← arrOf t).mapM exprOfJson)
  if let .ok l := j.getObjVal? "lam" then
    match l with
    | .arr #[ps, b] => return .lam (← strList ps) (← exprOfJson b)
    | _ => throw "bad lam"
  if let .ok c := j.getObjVal? "call" then
    match c with
    | .arr #[f, args] => return .call (← exprOfJson f) (← (← arrOf args).mapM exprOfJson)
    | _ => throw "bad call"
  if let .ok c := j.getObjVal? "app" then
    match c with
    | .arr #[t, e] => return .append (← exprOfJson t) (← exprOfJson e)
    | _ => throw "bad app"
  if let .ok c := j.getObjVal? "gen" then
    let elt ← exprOfJson (← c.getObjVal? "elt")
    let cls ← (← arrOf (← c.getObjVal? "cl")).mapM fun cl => do
      match cl with
      | .arr #[t, it, cs] =>
        pure ((← t.getStr?), (← exprOfJson it), (← (← arrOf cs).mapM exprOfJson))
      | _ => throw "bad clause"
    return .gen elt cls
  if let .ok e := j.getObjVal? "drain" then
    return .drain (← exprOfJson e)
  if let .ok p := j.getObjVal? "ns" then
    match p with
    | .arr #[m, k, e] =>
      let m ← match (← m.getStr?) with
        | "pop1" => pure NsMeth.pop1 | "pop2" => pure NsMeth.pop2 | "popitem" => pure NsMeth.popitem
        | "clear" => pure NsMeth.clear | "setdefault" => pure NsMeth.setdefault
        | "update" => pure NsMeth.update | "setitem" => pure NsMeth.setitem
        | "delitem" => pure NsMeth.delitem | "ior" => pure NsMeth.ior
        | other => throw s!"bad namespace method {other}"
      return .nsop m (← k.getStr?) (← exprOfJson e)
    | _ => throw "bad ns"
  if let .ok p := j.getObjVal? "si" then
    match p with
    | .arr #[t, i, e] => return .setitem (← exprOfJson t) (← jsonNat? i) (← exprOfJson e)
    | _ => throw "bad si"
  if let .ok c := j.getObjVal? "comp" then
    let gen ← (← c.getObjVal? "gen").getBool?
    let elt ← exprOfJson (← c.getObjVal? "elt")
    let cls ← (← arrOf (← c.getObjVal? "cl")).mapM fun cl => do
      match cl with
      | .arr #[t, it, cs] =>
        pure ((← t.getStr?), (← exprOfJson it), (← (← arrOf cs).mapM exprOfJson))
      | _ => throw "bad clause"
    return .comp gen elt cls
  throw s!"bad expr {j.compress}"

def bodyOfJson (j : Json) : Except String (List (String × Expr)) := do
  (← arrOf j).mapM fun p => do
    match p with
    | .arr #[x, e] => pure ((← x.getStr?), (← exprOfJson e))
    | _ => throw "bad body line"

def stmtOfJson (j : Json) : Except String Stmt := do
  if let .ok p := j.getObjVal? "as" then
    match p with
    | .arr #[x, e] => return .assign (← x.getStr?) (← exprOfJson e)
    | _ => throw "bad assign"
  if let .ok p := j.getObjVal? "aug" then
    match p with
    | .arr #[x, e] => return .aug (← x.getStr?) (← exprOfJson e)
    | _ => throw "bad aug"
  if let .ok x := j.getObjVal? "del" then
    return .del (← x.getStr?)
  if let .ok p := j.getObjVal? "imp" then
    match p with
    | .arr #[x, v] => return .imp (← x.getStr?) (← vOfJson v)
    | _ => throw "bad imp"
  if let .ok e := j.getObjVal? "ex" then
    return .expr (← exprOfJson e)
  if let .ok d := j.getObjVal? "def" then
    return .def_ (← (← d.getObjVal? "f").getStr?) (← strList (← d.getObjVal? "ps"))
      (← strList (← d.getObjVal? "gl")) (← bodyOfJson (← d.getObjVal? "body"))
      (← exprOfJson (← d.getObjVal? "ret"))
  if let .ok p := j.getObjVal? "cls" then
    match p with
    | .arr #[c, b] => return .cls (← c.getStr?) (← bodyOfJson b)
    | _ => throw "bad cls"
  if let .ok p := j.getObjVal? "sis" then
    match p with
    | .arr #[t, i, e] => return .setitem (← exprOfJson t) (← jsonNat? i) (← exprOfJson e)
    | _ => throw "bad sis"
  if let .ok p := j.getObjVal? "save" then
    match p with
    | .arr #[ns, kws] => return .save (← strList ns) (← bodyOfJson kws)
    | _ => throw "bad save"
  throw s!"bad stmt {j.compress}"

/-! Rebinding `__builtins__` (`(__builtins__ := e)`, `__builtins__ = e`, `del __builtins__`, as a
    comprehension target / parameter / def / class / import alias) changes where CPython finds the
    builtins of every frame created afterwards: outside the modelled domain, rejected. -/

mutual
partial def exprBindsBuiltins (e : Expr) : Bool :=
  match e with
  | .name _ => false
  | .const _ => false
  | .walrus x e1 => x == "__builtins__" || exprBindsBuiltins e1
  | .tuple es => es.any exprBindsBuiltins
  | .comp _ elt cls =>
    exprBindsBuiltins elt ||
      cls.any (fun c => c.1 == "__builtins__" || exprBindsBuiltins c.2.1 || c.2.2.any exprBindsBuiltins)
  | .lam ps body => ps.contains "__builtins__" || exprBindsBuiltins body
  | .call f args => exprBindsBuiltins f || args.any exprBindsBuiltins
  | .append t e1 => exprBindsBuiltins t || exprBindsBuiltins e1
  | .gen elt cls =>
    exprBindsBuiltins elt ||
      cls.any (fun c => c.1 == "__builtins__" || exprBindsBuiltins c.2.1 || c.2.2.any exprBindsBuiltins)
  | .drain e1 => exprBindsBuiltins e1
  | .setitem t _ e1 => exprBindsBuiltins t || exprBindsBuiltins e1
  | .nsop m k e1 =>
    (k == "__builtins__" && (m == .setdefault || m == .update || m == .setitem || m == .ior)) ||
      exprBindsBuiltins e1
end

def bodyBindsBuiltins (b : List (String × Expr)) : Bool :=
  b.any (fun l => l.1 == "__builtins__" || exprBindsBuiltins l.2)

def stmtBindsBuiltins : Stmt → Bool
  | .assign x e => x == "__builtins__" || exprBindsBuiltins e
  | .aug x e => x == "__builtins__" || exprBindsBuiltins e
  | .del x => x == "__builtins__"
  | .imp x _ => x == "__builtins__"
  | .def_ f ps gl body ret =>
    f == "__builtins__" || ps.contains "__builtins__" || gl.contains "__builtins__" ||
      bodyBindsBuiltins body || exprBindsBuiltins ret
  | .cls c body => c == "__builtins__" || bodyBindsBuiltins body
  | .expr e => exprBindsBuiltins e
  | .setitem t _ e => exprBindsBuiltins t || exprBindsBuiltins e
  | .save _ kws => kws.any (fun l => exprBindsBuiltins l.2)

inductive Op where
  | pyimport (b : Env)
  | eval (e : Expr)
  | exec (b : List Stmt)
  | evalset (k : String) (e : Expr)
  | foreach (e : Expr)
  | ctxset (b : Env)
  | ctxdel (ks : List String)
  | clearall
  | rehydrate
  /-- the `save` function of the `blk`-th py block of the session (0-based), called now -/
  | savecall (blk : Nat) (names : List String) (kvs : Env)

inductive Mode where
  | now | child | old
  deriving DecidableEq

def opOfJson (j : Json) : Except String Op := do
  if let .ok b := j.getObjVal? "pyimport" then
    return .pyimport (← envOfJson b)
  if let .ok e := j.getObjVal? "eval" then
    let e ← exprOfJson e
    if !e.wf [] false false false then throw "ill-formed expression"
    if exprBindsBuiltins e then throw "outside the modelled domain: binds __builtins__"
    return .eval e
  if let .ok p := j.getObjVal? "evalset" then
    match p with
    | .arr #[k, e] =>
      let e ← exprOfJson e
      if !e.wf [] false false false then throw "ill-formed expression"
      if exprBindsBuiltins e then throw "outside the modelled domain: binds __builtins__"
      return .evalset (← k.getStr?) e
    | _ => throw "bad evalset"
  if let .ok e := j.getObjVal? "foreach" then
    let e ← exprOfJson e
    if !e.wf [] false false false then throw "ill-formed expression"
    if exprBindsBuiltins e then throw "outside the modelled domain: binds __builtins__"
    return .foreach e
  if let .ok b := j.getObjVal? "exec" then
    let b ← (← arrOf b).mapM stmtOfJson
    if !b.all Stmt.wf then throw "ill-formed block"
    if b.any stmtBindsBuiltins then throw "outside the modelled domain: binds __builtins__"
    return .exec b
  if let .ok b := j.getObjVal? "ctxset" then
    return .ctxset (← envOfJson b)
  if let .ok b := j.getObjVal? "ctxdel" then
    return .ctxdel (← strList b)
  if let .ok _ := j.getObjVal? "clearall" then
    return .clearall
  if let .ok p := j.getObjVal? "savecall" then
    match p with
    | .arr #[b, names, kvs] =>
      let kvs ← envOfJson kvs
      if !nodup (kvs.map (·.1)) then throw "duplicate keyword in savecall"
      return .savecall (← jsonNat? b) (← strList names) kvs
    | _ => throw "bad savecall"
  if let .ok k := j.getObjVal? "rehydrate" then
    let k ← k.getStr?
    if k != "pickle" && k != "deepcopy" && k != "copy" then throw s!"bad rehydrate kind {k}"
    return .rehydrate
  throw s!"bad op {j.compress}"

/-! dump with numbering of mutable objects by first appearance -/

abbrev Seen := List (Nat × Nat)

def seenGet (s : Seen) (r : Nat) : Option Nat :=
  match s with
  | [] => none
  | (r', k) :: rest => if r' = r then some k else seenGet rest r

/-- Tuples are dumped by value; one nested more than this many tuples deep is cut (`{"deep": true}`):
    `(y := (y, y))` in a loop builds a DAG whose by-value dump is exponential. Same constant in
    `harness/impl_c14.py` (`World.TUPLE_DEPTH`). -/
def tupleDepth : Nat := 6

mutual
partial def dumpV (heap : List Cell) (s : Seen) (v : V) (td : Nat := 0) : Json × Seen :=
  match v with
  | .tok o n => (Json.mkObj [("tok", Json.arr #[Json.str (Org.str o), Json.str n])], s)
  | .cst n => (Json.num (Lean.JsonNumber.fromNat n), s)
  | .none => (Json.null, s)
  | .ref r =>
    match heap[r]? with
    | some (.tuple xs) =>
      if td ≥ tupleDepth then (Json.mkObj [("deep", Json.bool true)], s) else
      let (js, s1) := dumpL heap s xs (td + 1)
      (Json.mkObj [("t", Json.arr js.toArray)], s1)
    | some (.list xs) =>
      match seenGet s r with
      | some k => (Json.mkObj [("seen", k)], s)
      | none =>
        let k := s.length
        let (js, s1) := dumpL heap ((r, k) :: s) xs td
        (Json.mkObj [("l", k), ("xs", Json.arr js.toArray)], s1)
    | some (.clo _) =>
      match seenGet s r with
      | some k => (Json.mkObj [("seen", k)], s)
      | none => (Json.mkObj [("fn", s.length)], (r, s.length) :: s)
    | some (.cls attrs) =>
      match seenGet s r with
      | some k => (Json.mkObj [("seen", k)], s)
      | none =>
        let k := s.length
        let (js, s1) := dumpE heap ((r, k) :: s) attrs td
        (Json.mkObj [("cls", k), ("attrs", Json.arr js.toArray)], s1)
    | some (.gen _) =>
      match seenGet s r with
      | some k => (Json.mkObj [("seen", k)], s)
      | none => (Json.mkObj [("gen", s.length)], (r, s.length) :: s)
    | some (.frame _) => (Json.mkObj [("frame", r)], s)
    | none => (Json.mkObj [("dangling", r)], s)
partial def dumpL (heap : List Cell) (s : Seen) (xs : List V) (td : Nat := 0) : List Json × Seen :=
  match xs with
  | [] => ([], s)
  | x :: rest =>
    let (j, s1) := dumpV heap s x td
    let (js, s2) := dumpL heap s1 rest td
    (j :: js, s2)
partial def dumpE (heap : List Cell) (s : Seen) (e : Env) (td : Nat := 0) : List Json × Seen :=
  match e with
  | [] => ([], s)
  | (k, v) :: rest =>
    let (j, s1) := dumpV heap s v td
    let (js, s2) := dumpE heap s1 rest td
    (Json.arr #[Json.str k, j] :: js, s2)
end

inductive Out where
  | nothing
  | val (v : V)
  | items (vs : List V)

def stepJson (st : St) (res : R Out) : Json :=
  let (rj, s0) : Json × Seen :=
    match res with
    | .err e => (Json.mkObj [("err", Json.str e.name)], [])
    | .ok .nothing => (Json.mkObj [("ok", Json.null)], [])
    | .ok (.val v) => let (j, s) := dumpV st.heap [] v; (Json.mkObj [("ok", j)], s)
    | .ok (.items vs) =>
      let (js, s) := dumpL st.heap [] vs
      (Json.mkObj [("ok", Json.mkObj [("items", Json.arr js.toArray)])], s)
  let (cj, s1) := dumpE st.heap s0 st.ctx
  let (ij, s2) := dumpE st.heap s1 st.imps
  let (hj, _) := dumpE st.heap s2 (st.hidden.filter (fun kv => kv.1 != "__builtins__"))
  Json.mkObj [("res", rj), ("ctx", Json.arr cj.toArray), ("imps", Json.arr ij.toArray),
              ("hidden", Json.arr hj.toArray)]

def fatal (e : Err) : Bool := e == .outOfFuel || e == .outOfDomain

def runEvalMode (m : Mode) (fuel : Nat) (st : St) (e : Expr) : R V × St :=
  match m with
  | .now => runEval false fuel st e
  | .old => runEval true fuel st e
  | .child => runEvalChild fuel st e

/-- `blks`: the namespace object of every py block the session has run so far, in order (`none`: the
    Context that block's `save` closes over has been left behind by a rehydration). -/
def runOps (m : Mode) (fuel : Nat) (blks : List (Option Nat)) : List Op → St → List Json → List Json × Bool
  | [], _, acc => (acc.reverse, false)
  | op :: rest, st, acc =>
    match op with
    | .pyimport b =>
      let st1 := runPyImport st b
      runOps m fuel blks rest st1 (stepJson st1 (.ok .nothing) :: acc)
    | .ctxset b =>
      let st1 := runCtxSet st b
      runOps m fuel blks rest st1 (stepJson st1 (.ok .nothing) :: acc)
    | .ctxdel ks =>
      let st1 := runCtxDel st ks
      runOps m fuel blks rest st1 (stepJson st1 (.ok .nothing) :: acc)
    | .clearall =>
      let st1 := runClearAll st
      runOps m fuel blks rest st1 (stepJson st1 (.ok .nothing) :: acc)
    | .rehydrate =>
      let st1 := runRehydrate st
      runOps m fuel (blks.map fun _ => none) rest st1 (stepJson st1 (.ok .nothing) :: acc)
    | .eval e =>
      match runEvalMode m fuel st e with
      | (.ok v, st1) => runOps m fuel blks rest st1 (stepJson st1 (.ok (.val v)) :: acc)
      | (.err er, st1) =>
        if fatal er then ((stepJson st1 (.err er) :: acc).reverse, true)
        else runOps m fuel blks rest st1 (stepJson st1 (.err er) :: acc)
    | .evalset k e =>
      if m != .now then ((stepJson st (.err .outOfDomain) :: acc).reverse, true) else
      match runEvalSet fuel st k e with
      | (.ok v, st1) => runOps m fuel blks rest st1 (stepJson st1 (.ok (.val v)) :: acc)
      | (.err er, st1) =>
        if fatal er then ((stepJson st1 (.err er) :: acc).reverse, true)
        else runOps m fuel blks rest st1 (stepJson st1 (.err er) :: acc)
    | .foreach e =>
      if m != .now then ((stepJson st (.err .outOfDomain) :: acc).reverse, true) else
      match runForeach fuel st e with
      | (.ok vs, st1) => runOps m fuel blks rest st1 (stepJson st1 (.ok (.items vs)) :: acc)
      | (.err er, st1) =>
        if fatal er then ((stepJson st1 (.err er) :: acc).reverse, true)
        else runOps m fuel blks rest st1 (stepJson st1 (.err er) :: acc)
    | .exec b =>
      match runPyStep fuel st b with
      | (.ok _, st1) => runOps m fuel (blks ++ [some st.next]) rest st1 (stepJson st1 (.ok .nothing) :: acc)
      | (.err er, st1) =>
        if fatal er then ((stepJson st1 (.err er) :: acc).reverse, true)
        else runOps m fuel (blks ++ [some st.next]) rest st1 (stepJson st1 (.err er) :: acc)
    | .savecall blk names kvs =>
      match blks[blk]? with
      | some (some k) =>
        match runSaveCall st k names kvs with
        | (.ok _, st1) => runOps m fuel blks rest st1 (stepJson st1 (.ok .nothing) :: acc)
        | (.err er, st1) =>
          if fatal er then ((stepJson st1 (.err er) :: acc).reverse, true)
          else runOps m fuel blks rest st1 (stepJson st1 (.err er) :: acc)
      | _ => ((stepJson st (.err .outOfDomain) :: acc).reverse, true)

/-! ### pyns.importBind -/
section ImportBind
open Pypyr.PyImportSrc

def ipathOfJson (j : Json) : Except String Path := do
  let p ← strList j
  if p.any (fun c => c.isEmpty || c.contains '.') then throw "path component empty or dotted"
  pure p

def iobjOfJson (j : Json) : Except String Obj := do
  match j.getObjVal? "mod" with
  | .ok p => return .mod (← ipathOfJson p)
  | .error _ =>
    match ← j.getObjVal? "attr" with
    | .arr #[p, n] => return .attr (← ipathOfJson p) (← n.getStr?)
    | _ => throw "attr: [path, name] expected"

def iobjToJson : Obj → Json
  | .mod p => Json.mkObj [("mod", Json.arr (p.map Json.str).toArray)]
  | .attr p n => Json.mkObj [("attr", Json.arr #[Json.arr (p.map Json.str).toArray, Json.str n])]

def optStr (j : Json) : Except String (Option String) :=
  match j with
  | .null => pure Option.none
  | .str s => if s.isEmpty then throw "empty asname" else pure (some s)
  | _ => throw "asname: string or null expected"

def istmtOfJson (j : Json) : Except String PyImportSrc.Stmt := do
  match j.getObjVal? "imp" with
  | .ok items =>
    let its ← (← arrOf items).mapM fun it => do
      match it with
      | .arr #[p, a] =>
        let p ← ipathOfJson p
        if p.isEmpty then throw "import item without a name"
        pure (ImportItem.mk p (← optStr a))
      | _ => throw "import item: [path, asname] expected"
    if its.isEmpty then throw "import statement without items"
    return .imp its
  | .error _ =>
    match j.getObjVal? "from" with
    | .ok (.arr #[l, m, names]) =>
      let l ← jsonNat? l
      let m ← ipathOfJson m
      if l == 0 && m.isEmpty then throw "absolute from-import without a module"
      let ns ← (← arrOf names).mapM fun it => do
        match it with
        | .arr #[n, a] =>
          let n ← n.getStr?
          if n.isEmpty || n.contains '.' then throw "from-import name empty or dotted"
          pure (FromName.mk n (← optStr a))
        | _ => throw "from item: [name, asname] expected"
      if ns.isEmpty then throw "from statement without names"
      return .from_ l m ns
    | .ok _ => throw "from: [level, path, names] expected"
    | .error _ =>
      match j.getObjVal? "other" with
      | .ok _ => return .other
      | .error _ => throw "unknown import statement form"

def insToJson (ns : Ns) : Json :=
  Json.arr (ns.map (fun b => Json.arr #[Json.str b.1, iobjToJson b.2])).toArray

def ierrName : PyImportSrc.Err → String
  | .modNotFound => "ModuleNotFoundError"
  | .typeError => "TypeError"

def importSession (w : World) : Ns → List Source → List Json
  | _, [] => []
  | g, s :: rest =>
    let r := getNamespace w s
    let g' := (runStep w g s).1
    let res := match r with
      | .ok ns => Json.mkObj [("ok", insToJson ns)]
      | .error e => Json.mkObj [("err", Json.str (ierrName e))]
    Json.mkObj [("res", res), ("globals", insToJson g')] :: importSession w g' rest

def handleImportBind (j : Json) : Except String Json := do
  let wj ← j.getObjVal? "world"
  let mods ← (← arrOf (← wj.getObjVal? "mods")).mapM ipathOfJson
  if mods.any (·.isEmpty) then throw "module with an empty name"
  let attrs ← (← arrOf (← wj.getObjVal? "attrs")).mapM fun a => do
    match a with
    | .arr #[p, n, o] => pure ((← ipathOfJson p, ← n.getStr?), ← iobjOfJson o)
    | _ => throw "attr entry: [path, name, obj] expected"
  if !nodup (attrs.map (fun a => ".".intercalate a.1.1 ++ ":" ++ a.1.2)) then throw "duplicate attribute"
  let sources ← (← arrOf (← j.getObjVal? "sources")).mapM fun s => do (← arrOf s).mapM istmtOfJson
  let w : World := { mods := mods, attrs := attrs }
  pure (Json.mkObj [("steps", Json.arr (importSession w [] sources).toArray)])

end ImportBind

def handle (op : String) (j : Json) : Except String Json := do
  match op with
  | "importBind" => handleImportBind j
  | "session" =>
    let ctx ← envOfJson (← j.getObjVal? "ctx")
    if !nodup (ctx.map (·.1)) then throw "duplicate context key"
    let imps ← match j.getObjVal? "imps" with
      | .ok x => envOfJson x
      | .error _ => pure []
    let hidden ← match j.getObjVal? "hidden" with
      | .ok x => envOfJson x
      | .error _ => pure []
    let heap ← (← arrOf (← j.getObjVal? "heap")).mapM cellOfJson
    let bi ← strList (← j.getObjVal? "bi")
    let ops ← (← arrOf (← j.getObjVal? "ops")).mapM opOfJson
    let old ← match j.getObjVal? "old" with
      | .ok b => b.getBool?
      | .error _ => pure false
    let child ← match j.getObjVal? "child" with
      | .ok b => b.getBool?
      | .error _ => pure false
    if old && child then throw "old and child are exclusive"
    let mode : Mode := if old then .old else if child then .child else .now
    let fuel ← match j.getObjVal? "fuel" with
      | .ok f => jsonNat? f
      | .error _ => pure 400
    let st : St := { ctx := ctx, imps := imps, hidden := ("__builtins__", builtinsTok) :: hidden,
                     bi := bi.map (fun n => (n, V.tok .bi n)),
                     heap := heap, saved := [], nss := [], cur := 0, next := 0 }
    let (steps, stopped) := runOps mode fuel [] ops st []
    pure (Json.mkObj [("steps", Json.arr steps.toArray), ("stopped", Json.bool stopped)])
  | _ => .error s!"unknown op {op}"

end Pypyr.OpPyNs
