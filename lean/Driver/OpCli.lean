/- Driver ops for the Cli model (C18): `cli.exit`, `cli.main`, `cli.phases`, `cli.classify`, `cli.argv`, `cli.process`,
   `cli.runphase`, `cli.parser`, `cli.parseinput`, `cli.initctx`, `cli.shortcut`. -/
import Lean.Data.Json
import PypyrModel.Json
import PypyrModel.Cli

namespace Pypyr.OpCli
open Lean (Json JsonNumber)
open Pypyr.Cli

def natJ (n : Nat) : Json := Json.num (JsonNumber.fromNat n)
def optJ {α} (f : α → Json) : Option α → Json
  | none => Json.null
  | some a => f a
def strsJ (xs : List String) : Json := Json.arr (xs.map Json.str).toArray

def strsOf (j : Json) : Except String (List String) := do
  (← j.getArr?).toList.mapM Json.getStr?

def intJ (n : Int) : Json := Json.num (JsonNumber.fromInt n)

def optIntOf (j : Json) (k : String) : Except String (Option Int) := do
  match ← j.getObjVal? k with
  | .null => pure none
  | v => pure (some (← Pypyr.jsonInt? v))

/-- `SystemExit` code on the wire: `null`, an int in `[-2^63, 2^63)`, or `{"text": str(obj)}`. -/
def exitCodeOf (j : Json) : Except String ExitCode := do
  match j with
  | .null => pure .absent
  | .num _ =>
    let n ← Pypyr.jsonInt? j
    if n < -(2 ^ 63 : Int) || n ≥ (2 ^ 63 : Int) then throw "out of domain: SystemExit code does not fit a C long"
    pure (.int n)
  | _ => pure (.other (← (← j.getObjVal? "text").getStr?))

def raisedOf (j : Json) : Except String Raised := do
  match ← (← j.getObjVal? "kind").getStr? with
  | "nothing" => pure .nothing
  | "stop" => pure .stop
  | "stopPipeline" => pure .stopPipeline
  | "stopStepGroup" => pure .stopStepGroup
  | "keyboardInterrupt" => pure .keyboardInterrupt
  | "error" => pure (.error (← (← j.getObjVal? "ty").getStr?) (← (← j.getObjVal? "msg").getStr?))
  | "systemExit" => pure (.systemExit (← exitCodeOf (← j.getObjVal? "code")))
  | "baseOther" => pure (.baseOther (← (← j.getObjVal? "ty").getStr?) (← (← j.getObjVal? "msg").getStr?))
  | k => throw s!"unknown kind {k}"

def kindOf : Raised → String
  | .nothing => "nothing" | .stop => "stop" | .stopPipeline => "stopPipeline"
  | .stopStepGroup => "stopStepGroup" | .keyboardInterrupt => "keyboardInterrupt" | .error _ _ => "error"
  | .systemExit _ => "systemExit" | .baseOther _ _ => "baseOther"

def raisedJ : Raised → Json
  | .error ty msg => Json.mkObj [("kind", Json.str "error"), ("ty", Json.str ty), ("msg", Json.str msg)]
  | .baseOther ty msg => Json.mkObj [("kind", Json.str "baseOther"), ("ty", Json.str ty), ("msg", Json.str msg)]
  | .systemExit c => Json.mkObj [("kind", Json.str "systemExit"), ("code", match c with
      | .absent => Json.null | .int n => intJ n | .other t => Json.mkObj [("text", Json.str t)])]
  | r => Json.mkObj [("kind", Json.str (kindOf r))]

/-- An outcome of `main` as the harness observes a process / an in-process call. -/
def outcomeJ (log : Option Int) (raisedInTry : Raised) (o : Outcome) : Json :=
  let common := [("status", optJ natJ o.status), ("stderr", Json.str o.stderr),
                 ("interpreter_traceback", Json.bool o.interpreterTraceback),
                 ("main_traceback", Json.bool (match o with | .returned _ => mainTraceback log raisedInTry | _ => false))]
  match o with
  | .returned m => Json.mkObj ([("outcome", Json.str "returned"), ("ret", optJ natJ m.ret), ("stdout", Json.str m.stdout)] ++ common)
  | .escaped r => Json.mkObj ([("outcome", Json.str "escaped"), ("escaped", Json.str (kindOf r)), ("stdout", Json.str "")] ++ common)

def parserOf (s : String) : Except String Parser :=
  match s with
  | "pypyr.parser.keyvaluepairs" => pure .keyvaluepairs
  | "pypyr.parser.argskwargs" => pure .argskwargs
  | "pypyr.parser.dict" => pure .dict
  | "pypyr.parser.list" => pure .list
  | "pypyr.parser.string" => pure .string
  | "pypyr.parser.keys" => pure .keys
  | "pypyr.parser.json" => pure .json
  | _ => throw s!"not a built-in parser: {s}"

/-- `json.loads` for the driver: Lean's JSON parser, integers only (a JSON number with a fraction
    or exponent becomes a Python float, which is outside the modelled domain). Object keys come
    back in Lean's (sorted) order; the harness compares json results up to key order. -/
partial def jsonToVal (j : Json) : Except Exc Val :=
  match j with
  | .null => .ok .none
  | .bool b => .ok (.bool b)
  | .num n => if n.exponent == 0 then .ok (.int n.mantissa) else .error ⟨"OutOfDomain", "non-integer json number"⟩
  | .str s => .ok (.str s)
  | .arr xs => do
    let vs ← xs.toList.mapM jsonToVal
    pure (.list vs)
  | .obj kvs => do
    let ps ← kvs.toList.mapM fun (k, v) => do
      let v' ← jsonToVal v
      pure (Val.str k, v')
    pure (.dict ps)

/-- Is there a number with a fraction or exponent (`1.5`, `1e2`) outside string literals? -/
def hasFloatLit : List Char → Bool → Bool → Bool → Bool
  | [], _, _, _ => false
  | _ :: cs, true, true, _ => hasFloatLit cs true false false        -- escaped char inside a string
  | c :: cs, true, false, _ =>
    if c == '\\' then hasFloatLit cs true true false
    else if c == '"' then hasFloatLit cs false false false
    else hasFloatLit cs true false false
  | c :: cs, false, _, prevDigit =>
    if c == '"' then hasFloatLit cs true false false
    else if prevDigit && (c == '.' || c == 'e' || c == 'E') then true
    else hasFloatLit cs false false c.isDigit

def loadsImpl (s : String) : Except Exc Val :=
  -- a Python float: outside the modelled domain (`1e2` would even parse to exponent 0 in Lean)
  if hasFloatLit s.toList false false false then .error ⟨"OutOfDomain", "float literal in json"⟩
  else match Json.parse s with
    | .error e => .error ⟨"json.decoder.JSONDecodeError", e⟩
    | .ok j => jsonToVal j

def argsJ (a : Args) : Json :=
  Json.mkObj [("name", Json.str a.name), ("ctx", strsJ a.ctx), ("groups", optJ strsJ a.groups),
    ("success", optJ Json.str a.success), ("failure", optJ Json.str a.failure),
    ("dir", optJ Json.str a.dir), ("log", optJ intJ a.log), ("logpath", optJ Json.str a.logpath)]

def excResult {α} (f : α → Json) (r : Except Exc α) : Except String Json :=
  match r with
  | .error e => if e.name == "OutOfDomain" then .error ("out of domain: " ++ e.msg)
                else .ok (Json.mkObj [("err", e.toJson)])
  | .ok a => .ok (Json.mkObj [("ok", f a)])

def optBoolOf (j : Json) (k : String) : Except String (Option Bool) := do
  match ← j.getObjVal? k with
  | .null => pure none
  | .bool b => pure (some b)
  | _ => throw s!"{k}: null or bool expected"

def optStrsOf (j : Json) (k : String) : Except String (Option (List String)) := do
  match ← j.getObjVal? k with
  | .null => pure none
  | v => pure (some (← strsOf v))

def handle (op : String) (j : Json) : Except String Json := do
  match op with
  | "exit" =>
    -- the whole process for what escaped `load_and_run_pipeline`: `Pipeline.run`, `main`'s ladder, the interpreter
    let r ← raisedOf (← j.getObjVal? "raised")
    let log ← (match j.getObjVal? "log_level" with | .ok _ => optIntOf j "log_level" | .error _ => pure none)
    pure (outcomeJ log (pipelineRun r) (tryMain (pipelineRun r)))
  | "main" =>
    -- the ladder of `cli.main` alone (what `pipelinerunner.run` raised), and `Pipeline.run` alone
    let r ← raisedOf (← j.getObjVal? "raised")
    let log ← (match j.getObjVal? "log_level" with | .ok _ => optIntOf j "log_level" | .error _ => pure none)
    pure ((outcomeJ log r (tryMain r)).setObjVal! "pipeline_run" (Json.str (kindOf (pipelineRun r))))
  | "phases" =>
    -- `cli.main` after argument parsing with a fault possible in every phase:
    -- what `config.init()` / `set_root_logger(…)` raise, what escapes the pipeline run
    let fj ← j.getObjVal? "faults"
    let cfg ← raisedOf (← fj.getObjVal? "config")
    let lg ← raisedOf (← fj.getObjVal? "logger")
    let run ← raisedOf (← fj.getObjVal? "run")
    let log ← (match j.getObjVal? "log_level" with | .ok _ => optIntOf j "log_level" | .error _ => pure none)
    let f : Faults := fun
      | .configInit => cfg
      | .setRootLogger => lg
      | .runPipeline => run
    pure (outcomeJ log (seqRaises f mainShape.inTry) (mainPhases f))
  | "classify" =>
    -- `_parse_optional` on one string
    let s ← (← j.getObjVal? "s").getStr?
    match classify s with
    | .outside => throw "out of domain: dash-leading string with a non-ASCII character"
    | .pos => pure (Json.mkObj [("cls", Json.str "pos")])
    | .dd => pure (Json.mkObj [("cls", Json.str "dd")])
    | .unknown => pure (Json.mkObj [("cls", Json.str "unknown")])
    | .ambiguous => pure (Json.mkObj [("cls", Json.str "ambiguous")])
    | .opt o e => pure (Json.mkObj [("cls", Json.str "opt"), ("opt", Json.str (match o with
        | .groups => "groups" | .success => "success_group" | .failure => "failure_group" | .dir => "py_dir"
        | .log => "log_level" | .logpath => "log_path" | .help => "help" | .version => "version")),
        ("explicit", optJ Json.str e)])
  | "argv" =>
    let argv ← strsOf (← j.getObjVal? "argv")
    match parseArgv argv with
    | .outside => throw "out of domain: argv outside the modelled domain"
    | .usage => pure (Json.mkObj [("usage", Json.bool true)])
    | .exit0 => pure (Json.mkObj [("exit0", Json.bool true)])
    | .ok a => pure (Json.mkObj [("ok", argsJ a), ("call", Json.mkObj [
        ("pipeline_name", Json.str (runCallOf a).pipelineName), ("args_in", strsJ (runCallOf a).argsIn),
        ("parse_args", optJ Json.bool (runCallOf a).parseArgs), ("groups", optJ strsJ (runCallOf a).groups),
        ("success_group", optJ Json.str (runCallOf a).successGroup),
        ("failure_group", optJ Json.str (runCallOf a).failureGroup),
        ("py_dir", optJ Json.str (runCallOf a).pyDir)])])
  | "process" =>
    -- the whole command: argv, and what escapes the pipeline run if it gets that far
    let argv ← strsOf (← j.getObjVal? "argv")
    let r ← raisedOf (← j.getObjVal? "raised")
    match cliProcess argv (fun _ => r) with
    | none => throw "out of domain: argv outside the modelled domain"
    | some (st, call) => pure (Json.mkObj [("status", optJ natJ st), ("runner_called", Json.bool call.isSome)])
  | "parser" =>
    let p ← parserOf (← (← j.getObjVal? "parser").getStr?)
    let args ← strsOf (← j.getObjVal? "args")
    excResult (optJ Val.toJson) (parse loadsImpl p args)
  | "parseinput" =>
    let pa ← optBoolOf j "parse_args"
    let ai ← optStrsOf j "args_in"
    let dg ← (← j.getObjVal? "dict_given").getBool?
    pure (Json.bool (getParseInput pa ai dg))
  | "initctx" =>
    let parser ← (match ← j.getObjVal? "parser" with
      | .null => pure none
      | v => do pure (some (← parserOf (← v.getStr?))) : Except String (Option Parser))
    let pa ← optBoolOf j "parse_args"
    let ai ← optStrsOf j "args_in"
    let di ← (match ← j.getObjVal? "dict_in" with
      | .null => pure none
      | v => do pure (some (← Ctx.ofJson v)) : Except String (Option Ctx))
    match initialContext loadsImpl parser pa ai di with
    | none => throw "out of domain: parser result with non-string keys"
    | some r =>
      let ran := getParseInput pa ai di.isSome
      match excResult Ctx.toJson r with
      | .error e => throw e
      | .ok o => pure (o.setObjVal! "parser_runs" (Json.bool ran))
  | "shortcut" =>
    -- `Pipeline.new_pipe_and_args` under a given `config.shortcuts`
    let scs ← Ctx.ofJson (← j.getObjVal? "shortcuts")
    let c ← j.getObjVal? "call"
    let optStr (k : String) : Except String (Option String) := do
      match ← c.getObjVal? k with
      | .null => pure none
      | v => pure (some (← v.getStr?))
    let di ← (match ← c.getObjVal? "dict_in" with
      | .null => pure none
      | v => do pure (some (← Ctx.ofJson v)) : Except String (Option Ctx))
    let call : ApiCall := {
      name := ← (← c.getObjVal? "name").getStr?, contextArgs := ← optStrsOf c "context_args",
      parseInput := ← optBoolOf c "parse_input", dictIn := di, loader := ← optStr "loader",
      groups := ← optStrsOf c "groups", success := ← optStr "success_group", failure := ← optStr "failure_group",
      pyDir := ← optStr "py_dir" }
    match applyShortcut scs call with
    | none => throw "out of domain: shortcut value of a kind the model does not cover"
    | some (.error e) => pure (Json.mkObj [("err", e.toJson)])
    | some (.ok r) => pure (Json.mkObj [("ok", Json.mkObj [
        ("name", Json.str r.name), ("context_args", optJ strsJ r.contextArgs), ("parse_input", Json.bool r.parseInput),
        ("dict_in", optJ Ctx.toJson r.dictIn), ("loader", optJ Json.str r.loader), ("groups", optJ strsJ r.groups),
        ("success_group", optJ Json.str r.success), ("failure_group", optJ Json.str r.failure),
        ("py_dir", match r.pyDir with
          | .caller d => Json.mkObj [("caller", optJ Json.str d)]
          | .path raw => Json.mkObj [("path", Json.str raw)])])])
  | "parserfail" =>
    -- the context parser raised `raised`: {groups, success_group, failure_group, body: [[group, end]…], raised}
    let optStr (k : String) : Except String (Option String) := do
      match ← j.getObjVal? k with
      | .null => pure none
      | v => pure (some (← v.getStr?))
    let gs ← optStrsOf j "groups"
    let su ← optStr "success_group"
    let fa ← optStr "failure_group"
    let g : GroupArgs := { groups := gs, success := su, failure := fa }
    let r ← raisedOf (← j.getObjVal? "raised")
    let ends ← (← (← j.getObjVal? "body").getArr?).toList.mapM fun e => do
      match (← e.getArr?).toList with
      | [.str n, .str k] =>
        let h ← (match k with
          | "completed" => pure HandlerEnd.completed | "stopStepGroup" => pure HandlerEnd.stopStepGroup
          | "stopPipeline" => pure HandlerEnd.stopPipeline | "stop" => pure HandlerEnd.stop
          | _ => throw s!"unknown handler end {k}" : Except String HandlerEnd)
        pure (n, h)
      | _ => throw "bad body entry"
    let body : String → Option HandlerEnd := fun n => ends.lookup n
    let out := parserFailure body g r
    let log ← (match j.getObjVal? "log_level" with | .ok _ => optIntOf j "log_level" | .error _ => pure none)
    pure ((outcomeJ log (pipelineRun out) (tryMain (pipelineRun out))).setObjVal! "handler" (optJ Json.str (failureHandler g))
      |>.setObjVal! "ran" (strsJ (ranOnParserFailure body g)) |>.setObjVal! "leaves_run" (Json.str (kindOf out)))
  | "runphase" =>
    -- `run_step_groups`: {mains: [raised…] (what leaves the steps of each main group), success: raised|null,
    --  failure: raised|null (null: no failure group in effect / no such group), log_level}
    let optRaised (k : String) : Except String (Option Raised) := do
      match ← j.getObjVal? k with
      | .null => pure none
      | v => pure (some (← raisedOf v))
    let mains ← (← (← j.getObjVal? "mains").getArr?).toList.mapM raisedOf
    let su ← optRaised "success"
    let fa ← optRaised "failure"
    let out := runStepGroups mains su fa
    let log ← (match j.getObjVal? "log_level" with | .ok _ => optIntOf j "log_level" | .error _ => pure none)
    pure ((outcomeJ log (pipelineRun out) (tryMain (pipelineRun out)))
      |>.setObjVal! "leaves_run" (Json.str (kindOf out))
      |>.setObjVal! "leaves" (raisedJ out)
      |>.setObjVal! "body" (Json.str (kindOf (tryBody mains su)))
      |>.setObjVal! "mains_started" (natJ (mainGroupsStarted mains))
      |>.setObjVal! "success_started" (Json.bool (successStarted mains su))
      |>.setObjVal! "handler_runs" (Json.bool (handlerRuns codeLadders mains su fa)))
  | "parsecalls" =>
    -- a sequence of parser calls / in-place mutations of earlier results in ONE process:
    -- {ops: [["call", parser, [args]] | ["mutate", i, value]…]} → [result of every call]
    let ops ← (← (← j.getObjVal? "ops").getArr?).toList.mapM fun e => do
      match (← e.getArr?).toList with
      | [.str "call", .str p, a] => pure (POp.call (← parserOf p) (← strsOf a))
      | [.str "mutate", i, v] => pure (POp.mutate (← i.getNat?) (← Val.ofJson v))
      | _ => throw "bad parsecalls op"
    let rs := runPOps loadsImpl parserSrc {} ops
    let js ← rs.mapM fun r => excResult (optJ Val.toJson) r
    pure (Json.arr js.toArray)
  | _ => .error s!"unknown op {op}"

end Pypyr.OpCli
