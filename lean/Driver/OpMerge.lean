/- Driver ops for the Merge model (`PypyrModel/Merge.lean`), area "merge". -/
import Lean.Data.Json
import PypyrModel.Json
import PypyrModel.Fmt
import PypyrModel.FmtHeap
import PypyrModel.Merge

namespace Pypyr.OpMerge
open Lean (Json JsonNumber)
open Pypyr.Merge

def fuelOf (j : Json) : Nat :=
  match j.getObjVal? "fuel" with
  | .ok f => (jsonNat? f).toOption.getD 64
  | .error _ => 64

def okVal (v : Val) : Bool := FmtHeap.wfVal v && FmtHeap.keysHashable v

def rootOfJson (j : Json) : Except String Pairs := do
  match ← Val.ofJson j with
  | .dict kvs =>
    if !okVal (.dict kvs) then throw "context breaks the dict/set representation invariant"
    pure kvs
  | _ => throw "context must be a dict"

def traceJ (t : Trace) : Json :=
  Json.arr (t.map fun w => Json.arr #[Json.arr (w.1.map Val.toJson).toArray, Json.bool w.2]).toArray

def result (r : Except Exc (Pairs × Trace)) : Except String Json :=
  match r with
  | .error e => if e.name == "OutOfDomain" then .error ("out of domain: " ++ e.msg)
                else .ok (Json.mkObj [("err", e.toJson)])
  | .ok (root, t) =>
    if !FmtHeap.keysHashable (.dict root) then .error "out of domain: result has an unhashable key or set member"
    else .ok (Json.mkObj [("ok", Json.mkObj [("ctx", (Val.dict root).toJson), ("trace", traceJ t)])])

/-- ops: `merge` {ctx, add, fuel?} → `Context.merge`; `defaults` {ctx, add} → `Context.set_defaults`;
    `step` {ctx, which: "contextmerge" | "default"} → the step's `run_step`. -/
def handle (op : String) (j : Json) : Except String Json := do
  match op with
  | "merge" =>
    let root ← rootOfJson (← j.getObjVal? "ctx")
    let add ← Val.ofJson (← j.getObjVal? "add")
    if !okVal add then throw "incoming value breaks the representation invariant"
    result (merge (fuelOf j) root add)
  | "defaults" =>
    let root ← rootOfJson (← j.getObjVal? "ctx")
    let add ← Val.ofJson (← j.getObjVal? "add")
    if !okVal add then throw "incoming value breaks the representation invariant"
    result (setDefaults (fuelOf j) root add)
  | "step" =>
    let root ← rootOfJson (← j.getObjVal? "ctx")
    let which ← (← j.getObjVal? "which").getStr?
    let useDefaults ← match which with
      | "contextmerge" => pure false
      | "default" => pure true
      | _ => throw s!"unknown step {which}"
    result ((runStep useDefaults (fuelOf j) root).map fun r => (r, []))
  | _ => .error s!"unknown op {op}"

end Pypyr.OpMerge
