/- Driver ops for the Merge model (`PypyrModel/Merge.lean`), area "merge". -/
import Lean.Data.Json
import PypyrModel.Json
import PypyrModel.Fmt
import PypyrModel.FmtHeap
import PypyrModel.Merge
import Driver.OpHeap

namespace Pypyr.OpMerge
open Lean (Json JsonNumber)
open Pypyr.Merge

def fuelOf (j : Json) : Nat :=
  match j.getObjVal? "fuel" with
  | .ok f => (jsonNat? f).toOption.getD 64
  | .error _ => 64

def okVal (v : Val) : Bool := FmtHeap.wfVal v && FmtHeap.keysHashable v

def rootOfJson (j : Json) : Except String Pairs := do
  match ← Val.ofJson j with
  | .dict kvs =>
    if !okVal (.dict kvs) then throw "context breaks the dict/set representation invariant"
    pure kvs
  | _ => throw "context must be a dict"

def traceJ (t : Trace) : Json :=
  Json.arr (t.map fun w => Json.arr #[Json.arr (w.1.map Val.toJson).toArray, Json.bool w.2]).toArray

def result (r : Except Exc (Pairs × Trace)) : Except String Json :=
  match r with
  | .error e => if e.name == "OutOfDomain" then .error ("out of domain: " ++ e.msg)
                else .ok (Json.mkObj [("err", e.toJson)])
  | .ok (root, t) =>
    if !FmtHeap.keysHashable (.dict root) then .error "out of domain: result has an unhashable key or set member"
    else .ok (Json.mkObj [("ok", Json.mkObj [("ctx", (Val.dict root).toJson), ("trace", traceJ t)])])

/-- ops: `merge` {ctx, add, fuel?} → `Context.merge`; `defaults` {ctx, add} → `Context.set_defaults`;
    `step` {ctx, which: "contextmerge" | "default"} → the step's `run_step`. -/
def handle (op : String) (j : Json) : Except String Json := do
  match op with
  | "merge" =>
    let root ← rootOfJson (← j.getObjVal? "ctx")
    let add ← Val.ofJson (← j.getObjVal? "add")
    if !okVal add then throw "incoming value breaks the representation invariant"
    result (merge (fuelOf j) root add)
  | "defaults" =>
    let root ← rootOfJson (← j.getObjVal? "ctx")
    let add ← Val.ofJson (← j.getObjVal? "add")
    if !okVal add then throw "incoming value breaks the representation invariant"
    result (setDefaults (fuelOf j) root add)
  | "step" =>
    let root ← rootOfJson (← j.getObjVal? "ctx")
    let which ← (← j.getObjVal? "which").getStr?
    let useDefaults ← match which with
      | "contextmerge" => pure false
      | "default" => pure true
      | _ => throw s!"unknown step {which}"
    result ((runStep useDefaults (fuelOf j) root).map fun r => (r, []))
  | "seq" =>
    -- {ctx, ops: [{op: "merge"|"defaults"|"step-merge"|"step-default", add?}…]} → {ok: {ctx}} | {err, at}
    let root ← rootOfJson (← j.getObjVal? "ctx")
    let ops ← (← (← j.getObjVal? "ops").getArr?).toList.mapM fun o => do
      let name ← (← o.getObjVal? "op").getStr?
      let add? ← match o.getObjVal? "add" with
        | .ok a => do
          let v ← Val.ofJson a
          if !okVal v then throw "incoming value breaks the representation invariant"
          pure (some v)
        | .error _ => pure none
      let sw := match o.getObjVal? "swallow" with
        | .ok (Json.bool b) => b
        | _ => false
      match name, add? with
      | "merge", some a => pure (Op.merge a, sw)
      | "defaults", some a => pure (Op.defaults a, sw)
      | "step-merge", a => pure (Op.step false a, sw)
      | "step-default", a => pure (Op.step true a, sw)
      | _, _ => throw s!"bad op {name}"
    -- `runOpsS`: an operation with "swallow": true that fails is recorded and the sequence goes on with the
    -- context it left (without any such flag this is `runOps`: theorem `runOpsS_unflagged`)
    match runOpsS (fuelOf j) root ops with
    | .error (i, e) =>
      if e.name == "OutOfDomain" then .error ("out of domain: " ++ e.msg)
      else .ok (Json.mkObj [("err", e.toJson), ("at", Json.num (JsonNumber.fromNat i))])
    | .ok (root', errs) =>
      if !FmtHeap.keysHashable (.dict root') then .error "out of domain: result has an unhashable key or set member"
      else .ok (Json.mkObj [("ok", Json.mkObj [("ctx", (Val.dict root').toJson), ("trace", traceJ []),
        ("errs", Json.arr (errs.map fun (ie : Nat × Exc) =>
          Json.arr #[Json.num (JsonNumber.fromNat ie.1), Json.str ie.2.name]).toArray)])])
  | "seqHeap" =>
    -- heap level: {cells, root, ops: [{op, add?: ref}…], fuel?} → {ok: {cells, n0}} | {err, at}
    let cells ← (← (← j.getObjVal? "cells").getArr?).toList.mapM OpHeap.cellOfJson
    if !OpHeap.heapOk cells then throw "heap is not a well-formed DAG"
    let root ← jsonNat? (← j.getObjVal? "root")
    if root ≥ cells.length then throw "dangling root"
    let ops ← (← (← j.getObjVal? "ops").getArr?).toList.mapM fun o => do
      let name ← (← o.getObjVal? "op").getStr?
      let add? ← match o.getObjVal? "add" with
        | .ok a => do
          let r ← jsonNat? a
          if r ≥ cells.length then throw "dangling incoming ref"
          pure (some r)
        | .error _ => pure none
      match name, add? with
      | "merge", some a => pure (MergeHeap.OpH.merge a)
      | "defaults", some a => pure (MergeHeap.OpH.defaults a)
      | "step-merge", a => pure (MergeHeap.OpH.step false a)
      | "step-default", a => pure (MergeHeap.OpH.step true a)
      | _, _ => throw s!"bad op {name}"
    match MergeHeap.runOpsH (fuelOf j) root cells ops with
    | .error (i, e) =>
      if e.name == "OutOfDomain" then .error ("out of domain: " ++ e.msg)
      else .ok (Json.mkObj [("err", e.toJson), ("at", Json.num (JsonNumber.fromNat i))])
    | .ok h =>
      .ok (Json.mkObj [("ok", Json.mkObj [("n0", OpHeap.natJ cells.length),
        ("cells", Json.arr (h.map OpHeap.cellToJson).toArray)])])
  | _ => .error s!"unknown op {op}"

end Pypyr.OpMerge
